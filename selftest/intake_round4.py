#!/venv/bin/python
"""Round 4 (2026-09-29, last session): takes the deliverables of the independent seeding agents (scratch worktrees
/tmp/r4_<prop>/SEED/1/{patch.diff,demo.py,NOTES.md}) into /verif/seeded/<prop>-7/ and, after selftest/corpus_eval.py has
evaluated them (--out selftest/round4_first_evaluation.json), writes their meta.json from that record.

usage: intake_round4.py copy C04 C06 ...   |   intake_round4.py meta
"""
import json, os, re, shutil, sys
V = "/verif"
props = {json.loads(l)["id"]: json.loads(l)["title"] for l in open(f"{V}/properties.jsonl")}


def copy(ps):
    for p in ps:
        src = f"/tmp/r4_{p}/SEED/1"
        if not os.path.exists(f"{src}/patch.diff") or not os.path.exists(f"{src}/demo.py"):
            print("missing deliverables", p)
            continue
        d = f"{V}/seeded/{p}-7"
        os.makedirs(d, exist_ok=True)
        for f in ("patch.diff", "demo.py", "NOTES.md"):
            if os.path.exists(f"{src}/{f}"):
                shutil.copy(f"{src}/{f}", f"{d}/{f}")
        print("copied", d)


def meta():
    res = {r["id"]: r for r in json.load(open(f"{V}/selftest/round4_first_evaluation.json"))["results"]}
    for sid, r in sorted(res.items()):
        d = f"{V}/seeded/{sid}"
        if not os.path.isdir(d):
            continue
        notes = open(f"{d}/NOTES.md").read() if os.path.exists(f"{d}/NOTES.md") else ""
        rules = {}
        for c, v in r.get("checks", {}).items():
            if v["rc"] == 1:
                rules[c] = sorted({m.group(1) for l in v["lines"] for m in [re.match(r"\[(C\d\d-R\w+)\]", l)] if m})
        det = sorted(c for c, v in r.get("checks", {}).items() if v["rc"] == 1)
        err = sorted(c for c, v in r.get("checks", {}).items() if v["rc"] == 2)
        m = {
            "id": sid, "breaks_property": sid[:3], "property_title": props[sid[:3]], "seeding_round": 4,
            "origin": "independent sub-agent given only the property text, one-line descriptions of the known changes to avoid and its own scratch worktree of /repo; nothing from /verif",
            "summary": " ".join(notes.split())[:300],
            "needs_to_manifest": "see NOTES.md",
            "confirmed_by_me": {"demo_on_unchanged_tree_rc": r.get("demo_clean_rc"), "demo_with_change_rc": r.get("demo_changed_rc"),
                                "test_suite_passes_with_change": r.get("tests_pass"),
                                "how": "selftest/corpus_eval.py: scratch worktree of /repo (319a613), demo on the clean tree, git apply patch.diff, pytest (78 passed), demo again, checks with CFDPSA_REPO=<worktree>; worktree removed"},
            "first_evaluation": {"checks_run": sorted(r.get("checks", {})), "detected_by": det, "analysis_errors": err,
                                 "target_check_detected": sid[:3] in det,
                                 "note": "round 4 was evaluated once with the machinery as committed before the round (no rule was changed afterwards: this is a generalisation measurement)"},
            "detected_by_checks": det, "rules_that_fired": rules, "evaluated_with_final_checks": True,
        }
        json.dump(m, open(f"{d}/meta.json", "w"), indent=1)
        print(sid, r.get("verdict"), det, err)


if __name__ == "__main__":
    copy(sys.argv[2:]) if sys.argv[1] == "copy" else meta()

#!/venv/bin/python
"""Writes /verif/seeded/<id>/meta.json (and benign/<id>/meta.json) from the evaluation records.
Inputs: the per-seed JSON files of the two seeding rounds (scratch evaluation directories given on the command line as
round1_final round1_initial round2_final round2_initial) and, when present, selftest/corpus_results.json (the evaluation
of the committed corpora with the final checks, which takes precedence for `detected_by_checks`)."""
import glob, json, os, re, sys
V = "/verif"
r1f, r1i, r2f, r2i = (sys.argv[1:5] + ["/nonexistent"] * 4)[:4]
props = {json.loads(l)["id"]: json.loads(l)["title"] for l in open(f"{V}/properties.jsonl")}
final = {}
if os.path.exists(f"{V}/selftest/corpus_results.json"):
    final = {r["id"]: r for r in json.load(open(f"{V}/selftest/corpus_results.json"))["results"]}

R3 = {}
if os.path.exists(f"{V}/selftest/round3_first_evaluation.json"):
    R3 = {r["id"]: r for r in json.load(open(f"{V}/selftest/round3_first_evaluation.json"))["results"]}


def load(d, sid):
    p = f"{d}/{sid}.json"
    return json.load(open(p)) if os.path.exists(p) else None

def rules_of(res):
    out = {}
    for c, v in (res or {}).get("checks", {}).items():
        if v["rc"] == 1:
            out[c] = sorted({m.group(1) for l in v["lines"] for m in [re.match(r"\[(C\d\d-R\w+)\]", l)] if m})
    return out

def section(notes, *heads):
    low = notes.lower()
    for h in heads:
        i = low.find(h)
        if i >= 0:
            seg = notes[i:].split("\n", 1)[1] if "\n" in notes[i:] else ""
            seg = re.split(r"\n#+ ", seg)[0]
            return " ".join(seg.split())[:600]
    return ""

rows = []
for d in sorted(glob.glob(f"{V}/seeded/C??-?")):
    sid = os.path.basename(d)
    prop, k = sid[:3], int(sid[-1])
    rnd = 1 if k <= 2 else (2 if k <= 4 else 3)
    src_id = sid if rnd == 1 else f"{prop}-{k - 2}"
    if rnd == 3:
        fin = None
        ini = R3.get(sid)
    else:
        fin = load(r1f if rnd == 1 else r2f, src_id) or load(r1i if rnd == 1 else r2i, src_id)
        ini = load(r1i if rnd == 1 else r2i, src_id) or fin
    old_meta = json.load(open(f"{d}/meta.json")) if os.path.exists(f"{d}/meta.json") else {}
    if ini is None and old_meta.get("first_evaluation"):
        # the scratch evaluation directories of the development runs are gone: keep what was recorded from them
        ini = {"checks": {c: {"rc": 1 if c in old_meta["first_evaluation"].get("detected_by", []) else 0, "lines": []} for c in old_meta["first_evaluation"].get("checks_run", [])},
               "demo_clean_rc": old_meta.get("confirmed_by_me", {}).get("demo_on_unchanged_tree_rc"), "demo_changed_rc": old_meta.get("confirmed_by_me", {}).get("demo_with_change_rc"),
               "tests_pass": old_meta.get("confirmed_by_me", {}).get("test_suite_passes_with_change")}
    det0 = sorted(c for c, v in (ini or {}).get("checks", {}).items() if v["rc"] == 1)
    det1 = sorted(c for c, v in (fin or {}).get("checks", {}).items() if v["rc"] == 1)
    rules = rules_of(fin)
    fr = final.get(sid)
    if fr and "checks" in fr:
        det1 = sorted(set(fr.get("detected_by", [])))
        rules = rules_of(fr)
    notes = open(f"{d}/NOTES.md").read() if os.path.exists(f"{d}/NOTES.md") else ""
    first = next((l.strip("# ").strip() for l in notes.splitlines() if l.strip()), "")
    conf = fr or fin or ini or {}
    meta = {
        "id": sid, "breaks_property": prop, "property_title": props[prop], "seeding_round": rnd,
        "origin": "independent sub-agent given only the property text (round 2: plus the two round-1 patches to avoid; round 3: plus one-line descriptions of the four known changes) and its own scratch worktree of /repo; nothing from /verif",
        "summary": first[:300],
        "needs_to_manifest": section(notes, "what is needed", "what exactly is needed", "needed for the bug to manifest", "what manifests", "trigger") or "see NOTES.md",
        "confirmed_by_me": {"demo_on_unchanged_tree_rc": conf.get("demo_clean_rc"), "demo_with_change_rc": conf.get("demo_changed_rc"), "test_suite_passes_with_change": conf.get("tests_pass"),
                            "how": "scratch worktree of /repo: demo on the clean tree (exit 0); git apply patch.diff; pytest (78 passed); demo (non-zero exit); checks with CFDPSA_REPO=<worktree>; worktree removed (selftest/seedeval.py during development, selftest/corpus_eval.py for the final run)"},
        "first_evaluation": {"checks_run": sorted((ini or {}).get("checks", {})), "detected_by": det0, "target_check_detected": prop in det0},
        "detected_by_checks": det1, "rules_that_fired": rules,
        "evaluated_with_final_checks": bool(fr and "checks" in fr),
    }
    json.dump(meta, open(f"{d}/meta.json", "w"), indent=1)
    fe = "yes" if prop in det0 else ("other: " + ",".join(det0) if det0 else ("fail-closed" if rnd == 3 and (ini or {}).get("analysis_errors") else "no"))
    rows.append((sid, fe, ", ".join(f"{c} ({'/'.join(r.split('-')[1] for r in rules.get(c, []))})" for c in det1) or "-", first[:100].replace("|", "/")))
for d in sorted(glob.glob(f"{V}/benign/*")):
    sid = os.path.basename(d)
    fr = final.get(sid, {})
    notes = open(f"{d}/NOTES.md").read() if os.path.exists(f"{d}/NOTES.md") else ""
    first = next((l.strip("# ").strip() for l in notes.splitlines() if l.strip()), "")
    meta = {"id": sid, "kind": "behaviour-preserving change (every check must stay silent)", "summary": first[:300],
            "origin": "independent sub-agent asked for maintainer-style refactorings in its own scratch worktree; nothing from /verif" if not sid.startswith("N") else "seeded change neutralised by a later repair of /repo (see NOTES.md)",
            "final_evaluation": {"verdict": fr.get("verdict"), "checks_reporting": fr.get("detected_by"), "analysis_errors": fr.get("analysis_errors"), "tests_pass": fr.get("tests_pass")}}
    json.dump(meta, open(f"{d}/meta.json", "w"), indent=1)
print("| seed | target check fired at first evaluation | checks that fire (rules) | change |")
print("|---|---|---|---|")
for r in rows:
    print("| " + " | ".join(r) + " |")

#!/venv/bin/python
"""Confirms a seeded change (demo passes on the clean tree, fails with the change, test-suite still
passes) and runs the registered checks against the changed tree.
usage: seedeval.py <worktree> <seed dir> <out json> [checks...]"""
import json, os, subprocess, sys, time

wt, sd, outp = sys.argv[1], sys.argv[2], sys.argv[3]
checks = sys.argv[4:] or [f"C{i:02d}" for i in range(1, 21)]
env = dict(os.environ, PYTHONPATH=f"{wt}/src")

def sh(cmd, **kw):
    return subprocess.run(cmd, shell=True, capture_output=True, text=True, **kw)

res = {"worktree": wt, "seed": sd}
sh(f"git -C {wt} checkout -- .")
r = sh(f"cd {wt} && /venv/bin/python {sd}/demo.py", env=env, timeout=300)
res["demo_clean_rc"] = r.returncode
a = sh(f"git -C {wt} apply {sd}/patch.diff")
res["apply_rc"] = a.returncode
r = sh(f"cd {wt} && /venv/bin/python -m pytest -q -p no:cacheprovider -x 2>&1 | tail -3", env=env, timeout=600)
res["tests_tail"] = r.stdout.strip().splitlines()[-1:] if r.stdout else []
res["tests_pass"] = "78 passed" in r.stdout
r = sh(f"cd {wt} && /venv/bin/python {sd}/demo.py", env=env, timeout=300)
res["demo_changed_rc"] = r.returncode
res["demo_changed_tail"] = (r.stdout + r.stderr).strip().splitlines()[-3:]
res["checks"] = {}
for c in checks:
    t = time.time()
    e2 = dict(os.environ, CFDPSA_REPO=wt, CFDPSA_EVIDENCE_DIR=f"{os.path.dirname(os.path.abspath(outp))}/ev-{os.path.basename(wt)}")
    r = sh(f"/venv/bin/python /verif/cfdpsa/vcheck.py {c}", env=e2, timeout=3000)
    lines = [l for l in r.stdout.splitlines() if l.startswith(("[C", "VIOLATION", "ANALYSIS-ERROR", "    construct"))]
    res["checks"][c] = {"rc": r.returncode, "lines": lines[:12], "wall": round(time.time() - t, 1)}
sh(f"git -C {wt} checkout -- .")
json.dump(res, open(outp, "w"), indent=1)
det = [c for c, v in res["checks"].items() if v["rc"] == 1]
err = [c for c, v in res["checks"].items() if v["rc"] == 2]
print(f"{sd}: demo clean={res['demo_clean_rc']} changed={res['demo_changed_rc']} tests_pass={res['tests_pass']} detected_by={det} analysis_error={err}")

#!/venv/bin/python
"""Both-ways self-test of the checks over the committed corpora.

  /verif/seeded/<id>/patch.diff   a change that breaks property <id[:3]> (tests still pass)  -> some check must report VIOLATION
  /verif/benign/<id>/patch.diff   a behaviour-preserving refactoring                          -> every check must stay silent (exit 0)

Each entry is applied to its own scratch git worktree of /repo (outside /repo and /verif, removed afterwards), the existing
test-suite is run there (must pass: 78 tests), for seeded entries the demonstration is run (must fail with the change), and the
checks analyse the scratch tree (CFDPSA_REPO=<worktree>).  Nothing is ever applied to /repo itself.

usage: corpus_eval.py [--jobs N] [--only id,id,...] [--kind seeded|benign|all] [--checks all|expected] [--check-list C12,C13] [--out FILE]
  --check-list      : re-run only these checks and merge them into the entries' earlier results (after a rule was added)
  --checks expected : seeded entries run only the checks recorded in their meta.json as detecting (plus the target check)
"""
from __future__ import annotations

import argparse
import json
import os
import shutil
import subprocess
import sys
import tempfile
import time
from concurrent.futures import ThreadPoolExecutor
from pathlib import Path

VERIF = Path(__file__).resolve().parent.parent
REPO = os.environ.get("CFDPSA_REPO_BASE", "/repo")
ALL = [f"C{i:02d}" for i in range(1, 21)]


def sh(cmd: str, **kw) -> subprocess.CompletedProcess:
    return subprocess.run(cmd, shell=True, capture_output=True, text=True, **kw)


DEMO_ONLY = False
CHECK_LIST: list[str] = []
PREVIOUS: dict[str, dict] = {}


def evaluate(kind: str, entry: Path, checks_mode: str, jobs: int, root: Path) -> dict:
    sid = entry.name
    wt = root / sid
    res: dict = {"id": sid, "kind": kind}
    t0 = time.time()
    r = sh(f"git -C {REPO} worktree add --detach {wt} HEAD")
    if r.returncode != 0:
        res["error"] = "worktree: " + r.stderr.strip()[-200:]
        return res
    try:
        env = dict(os.environ, PYTHONPATH=f"{wt}/src:{wt}")
        demo = None
        if kind == "seeded" and (entry / "demo.py").exists():
            # the demonstrations were written as <worktree>/SEED/<k>/demo.py and many locate the test helpers relative to that
            # place: they are run from the same relative location
            (wt / "SEED" / "1").mkdir(parents=True, exist_ok=True)
            demo = wt / "SEED" / "1" / "demo.py"
            shutil.copy(entry / "demo.py", demo)
            res["demo_clean_rc"] = sh(f"cd {wt} && /venv/bin/python {demo}", env=env, timeout=600).returncode
        a = sh(f"git -C {wt} apply {entry}/patch.diff")
        res["apply_rc"] = a.returncode
        if a.returncode != 0:
            res["error"] = "patch does not apply: " + a.stderr.strip()[-200:]
            return res
        t = sh(f"cd {wt} && /venv/bin/python -m pytest -q -p no:cacheprovider -x 2>&1 | tail -3", env=env, timeout=900)
        res["tests_pass"] = "78 passed" in t.stdout
        if demo is not None:
            res["demo_changed_rc"] = sh(f"cd {wt} && /venv/bin/python {demo}", env=env, timeout=600).returncode
        if DEMO_ONLY:
            res["verdict"] = "demo confirmed" if res.get("demo_clean_rc") == 0 and res.get("demo_changed_rc") not in (0, None) and res.get("tests_pass") else "DEMO NOT CONFIRMED"
            return res
        checks = ALL
        if checks_mode == "expected" and kind == "seeded" and (entry / "meta.json").exists():
            m = json.loads((entry / "meta.json").read_text())
            checks = sorted(set(m.get("detected_by_checks", [])) | {sid[:3]})
        res["checks"] = {}
        if CHECK_LIST:
            checks = CHECK_LIST
            res["checks"] = dict(PREVIOUS.get(sid, {}).get("checks", {}))
        evd = root / f"ev-{sid}"
        for c in checks:
            e2 = dict(os.environ, CFDPSA_REPO=str(wt), CFDPSA_EVIDENCE_DIR=str(evd), CFDPSA_JOBS=str(jobs))
            tc = time.time()
            r = sh(f"/venv/bin/python {VERIF}/cfdpsa/vcheck.py {c}", env=e2, timeout=7200)
            lines = [l for l in r.stdout.splitlines() if l.startswith(("[C", "VIOLATION", "ANALYSIS-ERROR", "    construct"))]
            res["checks"][c] = {"rc": r.returncode, "lines": lines[:10], "wall": round(time.time() - tc, 1)}
        det = sorted(c for c, v in res["checks"].items() if v["rc"] == 1)
        err = sorted(c for c, v in res["checks"].items() if v["rc"] == 2)
        res["detected_by"], res["analysis_errors"] = det, err
        if kind == "seeded":
            res["verdict"] = "detected" if det else ("analysis-error only" if err else "MISSED")
        else:
            res["verdict"] = "silent" if not det and not err else ("FALSE ALARM" if det else "analysis-error (fail-closed)")
    except subprocess.TimeoutExpired as e:
        res["error"] = f"timeout: {e.cmd[:80]}"
    finally:
        sh(f"git -C {REPO} worktree remove --force {wt}")
        shutil.rmtree(root / f"ev-{sid}", ignore_errors=True)
        shutil.rmtree(root / "replay", ignore_errors=True)
    res["wall"] = round(time.time() - t0, 1)
    if DEMO_ONLY:
        print(f"{kind:7s} {sid}: {res.get('verdict', res.get('error'))} clean={res.get('demo_clean_rc')} changed={res.get('demo_changed_rc')} tests={res.get('tests_pass')}", flush=True)
        return res
    print(f"{kind:7s} {sid}: {res.get('verdict', res.get('error'))} detected_by={res.get('detected_by')} analysis_errors={res.get('analysis_errors')} ({res['wall']}s)", flush=True)
    return res


def main() -> int:
    ap = argparse.ArgumentParser()
    ap.add_argument("--jobs", type=int, default=3, help="entries evaluated in parallel")
    ap.add_argument("--only", default="")
    ap.add_argument("--kind", default="all")
    ap.add_argument("--checks", default="all")
    ap.add_argument("--out", default=str(VERIF / "selftest" / "corpus_results.json"))
    ap.add_argument("--check-list", default="")
    ap.add_argument("--demo-only", action="store_true", help="only confirm tests + demonstrations (no checks)")
    a = ap.parse_args()
    global CHECK_LIST, PREVIOUS, DEMO_ONLY
    DEMO_ONLY = a.demo_only
    CHECK_LIST = [c for c in a.check_list.split(",") if c]
    if CHECK_LIST and Path(a.out).exists():
        PREVIOUS = {r["id"]: r for r in json.loads(Path(a.out).read_text()).get("results", [])}
    only = {x for x in a.only.split(",") if x}
    entries = []
    for kind in ("seeded", "benign"):
        if a.kind not in ("all", kind):
            continue
        d = VERIF / kind
        if d.is_dir():
            for e in sorted(d.iterdir()):
                if (e / "patch.diff").exists() and (not only or e.name in only):
                    entries.append((kind, e))
    root = Path(tempfile.mkdtemp(prefix="cfdpsa-selftest-"))
    per = max(1, 16 // max(1, a.jobs))
    try:
        with ThreadPoolExecutor(max_workers=a.jobs) as ex:
            results = list(ex.map(lambda ke: evaluate(ke[0], ke[1], a.checks, per, root), entries))
    finally:
        shutil.rmtree(root, ignore_errors=True)
        sh(f"git -C {REPO} worktree prune")
    prev = {}
    outp = Path(a.out)
    if outp.exists() and (only or CHECK_LIST):
        prev = {r["id"]: r for r in json.loads(outp.read_text()).get("results", [])}
    for r in results:
        prev[r["id"]] = r
    allr = [prev[k] for k in sorted(prev)] if (only or CHECK_LIST) else results
    summ = {"seeded": sum(1 for r in allr if r["kind"] == "seeded"), "seeded_detected": sum(1 for r in allr if r.get("verdict") == "detected"),
            "benign": sum(1 for r in allr if r["kind"] == "benign"), "benign_silent": sum(1 for r in allr if r.get("verdict") == "silent")}
    outp.write_text(json.dumps({"summary": summ, "results": allr}, indent=1))
    print(json.dumps(summ))
    bad = [r["id"] for r in allr if r.get("verdict") in ("MISSED", "FALSE ALARM") or "error" in r]
    if bad:
        print("attention:", bad)
    return 0 if not bad else 1


if __name__ == "__main__":
    sys.exit(main())

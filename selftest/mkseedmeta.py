#!/venv/bin/python
"""Builds /verif/seeded/<id>/meta.json and a markdown table from the seed evaluation results."""
import glob, json, os, re, sys
final_dir, init_dir = sys.argv[1], sys.argv[2]
props = {json.loads(l)["id"]: json.loads(l)["title"] for l in open("/verif/properties.jsonl")}
rows = []
for f in sorted(glob.glob(f"{final_dir}/C??-?.json")):
    sid = os.path.basename(f)[:-5]
    d = json.load(open(f))
    ini = json.load(open(f"{init_dir}/{sid}.json")) if os.path.exists(f"{init_dir}/{sid}.json") else None
    det = sorted(c for c, v in d["checks"].items() if v["rc"] == 1)
    err = sorted(c for c, v in d["checks"].items() if v["rc"] == 2)
    det0 = sorted(c for c, v in ini["checks"].items() if v["rc"] == 1) if ini else []
    rules = {}
    for c, v in d["checks"].items():
        if v["rc"] == 1:
            rules[c] = sorted({m.group(1) for l in v["lines"] for m in [re.match(r"\[(C\d\d-R\w+)\]", l)] if m})
    notes = open(f"/verif/seeded/{sid}/NOTES.md").read() if os.path.exists(f"/verif/seeded/{sid}/NOTES.md") else ""
    first = next((l.strip("# ").strip() for l in notes.splitlines() if l.strip()), "")
    meta = {
        "id": sid, "breaks_property": sid[:3], "property_title": props[sid[:3]],
        "origin": "independent sub-agent given only the property text and its own scratch worktree of /repo",
        "summary": first[:300],
        "needs_to_manifest": "see NOTES.md (section on what is needed for the bug to manifest)",
        "confirmed_by_me": {"demo_on_unchanged_tree_rc": d["demo_clean_rc"], "demo_with_change_rc": d["demo_changed_rc"], "test_suite_passes_with_change": d["tests_pass"],
                            "how": "selftest/seedeval.py in the seed's scratch worktree: git checkout -- .; demo; git apply patch.diff; pytest (78 passed); demo; all 20 quick checks with CFDPSA_REPO=<worktree>; git checkout -- ."},
        "detected_by_checks": det, "rules_that_fired": rules, "analysis_errors": err,
        "target_check_detected_initially": sid[:3] in det0, "detected_initially_by": det0,
    }
    os.makedirs(f"/verif/seeded/{sid}", exist_ok=True)
    json.dump(meta, open(f"/verif/seeded/{sid}/meta.json", "w"), indent=1)
    rows.append((sid, "yes" if sid[:3] in det0 else ("other: " + ",".join(det0) if det0 else "no"), ", ".join(f"{c} ({'/'.join(r.split('-')[1] for r in rules[c])})" for c in det) or "-", ",".join(err) or "-", first[:90]))
print("| seed | target check fired before strengthening | checks that fire now (rules) | analysis errors | change |")
print("|---|---|---|---|---|")
for r in rows:
    print("| " + " | ".join(r) + " |")

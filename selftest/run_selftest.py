#!/venv/bin/python
"""Runs the self-test corpus both ways on scratch copies of /repo (outside /repo and /verif, removed
afterwards).  usage: run_selftest.py [--jobs N] [ids...]   Results: /verif/selftest/results.json"""
import json, os, shutil, subprocess, sys, tempfile, time
from concurrent.futures import ThreadPoolExecutor
sys.path.insert(0, os.path.dirname(__file__))
from corpus import FIRING, BENIGN

ALL = [f"C{i:02d}" for i in range(1, 21)]


def run_one(entry):
    eid, prop, rel, edits, note = entry[:5]
    mode = entry[5] if len(entry) > 5 else "one"
    d = tempfile.mkdtemp(prefix=f"cfdpsa_st_{eid}_")
    res = {"id": eid, "property": prop, "note": note}
    try:
        shutil.copytree("/repo/src", f"{d}/src")
        shutil.copytree("/repo/tests", f"{d}/tests")
        shutil.copy("/repo/pyproject.toml", f"{d}/pyproject.toml")
        p = f"{d}/src/cfdppy/{rel}"
        s = open(p).read()
        for old, new in edits:
            n = s.count(old)
            if (mode == "one" and n != 1) or n == 0:
                res["status"] = f"NOT-APPLICABLE (pattern occurs {n} times)"
                return res
            s = s.replace(old, new)
        open(p, "w").write(s)
        if mode == "all":
            # renames must be applied in the sibling modules and tests as well
            for root, _, files in os.walk(d):
                for f in files:
                    if f.endswith(".py"):
                        q = os.path.join(root, f)
                        t = open(q).read()
                        t2 = t
                        for old, new in edits:
                            t2 = t2.replace(old, new)
                        if t2 != t:
                            open(q, "w").write(t2)
        env = dict(os.environ, PYTHONPATH=f"{d}/src")
        r = subprocess.run(f"cd {d} && /venv/bin/python -m pytest -q -p no:cacheprovider -x 2>&1 | tail -2", shell=True, capture_output=True, text=True, env=env, timeout=900)
        res["tests_pass"] = "78 passed" in r.stdout
        checks = [prop] if prop != "-" else ALL
        res["checks"] = {}
        for c in checks:
            e2 = dict(os.environ, CFDPSA_REPO=d, CFDPSA_EVIDENCE_DIR=f"{d}/ev")
            t = time.time()
            r = subprocess.run(f"/venv/bin/python /verif/cfdpsa/vcheck.py {c}", shell=True, capture_output=True, text=True, env=e2, timeout=3600)
            lines = [l for l in r.stdout.splitlines() if l.startswith(("[C", "ANALYSIS-ERROR", "    construct"))]
            res["checks"][c] = {"rc": r.returncode, "lines": lines[:6], "wall": round(time.time() - t, 1)}
        if prop != "-":
            res["status"] = "FIRED" if res["checks"][prop]["rc"] == 1 else ("ANALYSIS-ERROR" if res["checks"][prop]["rc"] == 2 else "MISSED")
        else:
            bad = {c: v["rc"] for c, v in res["checks"].items() if v["rc"] != 0}
            res["status"] = "SILENT" if not bad else f"ALARM {bad}"
        return res
    finally:
        shutil.rmtree(d, ignore_errors=True)


def main():
    args = sys.argv[1:]
    jobs = 3
    if args and args[0] == "--jobs":
        jobs = int(args[1]); args = args[2:]
    entries = [e for e in FIRING + BENIGN if not args or e[0] in args]
    os.environ.setdefault("CFDPSA_JOBS", str(max(2, 16 // jobs)))
    out = []
    with ThreadPoolExecutor(jobs) as ex:
        for r in ex.map(run_one, entries):
            print(r["id"], r["property"], r.get("status"), "tests_pass=" + str(r.get("tests_pass")), r["note"], flush=True)
            out.append(r)
    prev = []
    path = "/verif/selftest/results.json"
    if os.path.exists(path):
        prev = [r for r in json.load(open(path)) if r["id"] not in {x["id"] for x in out}]
    json.dump(sorted(prev + out, key=lambda r: r["id"]), open(path, "w"), indent=1)


if __name__ == "__main__":
    main()

#!/venv/bin/python
"""Regenerates MANIFEST.json from cfdpsa/registry.py (run after changing what is claimed)."""
import json, sys
sys.path.insert(0, "/verif")
from cfdpsa.registry import CLAIMS, NOT_APPLICABLE

props = [json.loads(l) for l in open("/verif/properties.jsonl")]
checks = []
na = []
for p in props:
    pid = p["id"]
    if pid in CLAIMS:
        c = CLAIMS[pid]
        checks.append({
            "property_id": pid,
            "quick_cmd": f"/venv/bin/python /verif/cfdpsa/vcheck.py {pid} --tier quick",
            "thorough_cmd": f"/venv/bin/python /verif/cfdpsa/vcheck.py {pid} --tier thorough",
            "evidence_file": f"/verif/evidence/{pid}.json",
            "replay_cmd_template": "cat {path}",
            "engine": "cfdpsa",
            "level_claimed": {"category": "other", "text": c["text"], "design_ref": c["ref"]},
            "level_note": c["note"],
            "technique": "static analysis: " + c["technique"],
        })
    else:
        na.append({"property_id": pid, "reason": NOT_APPLICABLE.get(pid, "check not built yet (static analyser under construction)")})
m = {
    "version": 1,
    "setup_cmd": "/venv/bin/python -m compileall -q /verif/cfdpsa >/dev/null 2>&1; /venv/bin/python /verif/cfdpsa/warm.py >/dev/null 2>&1 || true",
    "hooks": {
        "guard": "CFDPPY_VERIF",
        "enable": "none needed: the checks are static analyses that read /repo/src/cfdppy from the working tree; no hook commit exists",
        "baseline_off_cmd": "cd /repo && /venv/bin/python -m pytest -ra -q -p no:cacheprovider --timeout=900 --continue-on-collection-errors",
        "source_commits": [],
        "add_only": True,
    },
    "engines": [{"name": "cfdpsa", "path": "/verif/cfdpsa", "serves_properties": sorted(CLAIMS),
                 "kind_free_text": "purpose-built static analyser for cfdppy: ast program model, light type resolver and call graph, structured abstract interpreter (finite domains, nullness, origin terms, linear normal forms), abstract transition systems of both handlers, rule tables with fail-closed instance minima"}],
    "checks": checks,
    "notes": "All checks are static analyses of /repo/src/cfdppy (no code of the repository is imported, executed or symbolically executed). Exit codes: 0 held (KNOWN-FINDING lines for recorded genuine defects), 1 VIOLATION, 2 ANALYSIS-ERROR (analyser could not decide; never a silent pass). The abstract transition systems are cached under /verif/out/cache keyed by the digest of the analysed sources and of the analyser.",
    "not_applicable": na,
}
json.dump(m, open("/verif/MANIFEST.json", "w"), indent=1)
print(len(checks), "checks;", len(na), "not applicable")

"""Positive fixture for C16: a handler-like class that touches the host file system.
The C16 rules must flag every marked line on every run (a rule that matches nothing is blind)."""
import os
from pathlib import Path


class FixtureHandler:
    def __init__(self, user):
        self.user = user
        self.name: Path = Path()

    def state_machine(self):
        with open(self.name, "rb") as f:  # VIOLATION-EXPECTED open
            f.read()
        if self.name.exists():  # VIOLATION-EXPECTED Path.exists
            os.remove(self.name)  # VIOLATION-EXPECTED os.remove
        return self._helper()

    def _helper(self):
        return self.name.stat().st_size  # VIOLATION-EXPECTED Path.stat

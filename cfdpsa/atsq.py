"""Query helpers over abstract transition systems and stand-alone abstract runs of single functions."""
from __future__ import annotations

import ast
from typing import Any, Iterator

from .ats import ATS, Edge, Harness, show_label
from .interp import Event, ExcInfo, Frame, Interp, Store
from .libmodel import LibModel
from .model import AnalysisError, Program
from .values import E, Pdu, Rec, Ref, Sym


def events(a: ATS, kind: str | None = None, name: str | None = None, prefix: str | None = None) -> Iterator[tuple[Edge, int, Event]]:
    for e in a.edges:
        for i, ev in enumerate(e.ev):
            if kind is not None and ev.kind != kind:
                continue
            if name is not None and ev.name != name:
                continue
            if prefix is not None and not ev.name.startswith(prefix):
                continue
            yield e, i, ev


def step_of(a: ATS, w: tuple) -> str:
    return repr(a.h.wget(w, "states.step")).split(".")[-1]


def state_of(a: ATS, w: tuple) -> str:
    return repr(a.h.wget(w, "states.state")).split(".")[-1]


def mode_of(a: ATS, w: tuple) -> str:
    return repr(a.h.wget(w, "_params.pdu_conf.trans_mode")).split(".")[-1]


def cfg_of(e: Edge, tag: str, default: Any = "<untested>") -> Any:
    for k, v in e.cfg:
        if k == tag:
            return v
    return default


def rec_field(r: Any, name: str, default: Any = "<absent>") -> Any:
    if isinstance(r, (Rec, Pdu)):
        return r.get(name, default)
    return default


def ename(v: Any) -> str:
    return v.name if isinstance(v, E) else repr(v)


class Standalone:
    """abstract interpretation of one function outside a handler (decision tables of pure functions)"""

    def __init__(self, prog: Program) -> None:
        self.prog = prog
        self.lib = LibModel(prog)
        self.ip = Interp(prog, self.lib)

    def run(self, qualname: str, args: list, st: Store | None = None, self_: Any = None) -> tuple[list[tuple[Any, Store]], list[tuple[ExcInfo, Store]]]:
        fi = self.prog.functions.get(qualname)
        if fi is None:
            raise AnalysisError(f"function {qualname} not found")
        st = st or Store()
        ex: list = []
        res = self.ip.call_repo(fi, self_, args, {}, st, ex, "<standalone>")
        return res, ex

    def packet(self, st: Store, kind: str) -> Ref:
        return self.lib.new_packet(st, kind)


def term_atoms(v: Any) -> tuple[set[str], set[str]]:
    """(atom names, operator/function names) occurring in an origin term"""
    atoms: set[str] = set()
    ops: set[str] = set()

    def rec(t: Any) -> None:
        if isinstance(t, Sym):
            rec(t.t)
        elif isinstance(t, Rec):
            ops.add(t.cls)
            for _, x in t.fields:
                rec(x)
        elif isinstance(t, tuple) and t:
            tag = t[0]
            if tag == "a":
                atoms.add(str(t[1]))
            elif tag == "app":
                ops.add(str(t[1]).replace("call:", ""))
                if str(t[1]).startswith("call:"):
                    pass
                for x in t[2]:
                    rec(x)
            elif tag == "attr":
                rec(t[1])
                ops.add("." + str(t[2]))
            elif tag == "lin":
                ops.add("lin")
                for a, _c in t[1]:
                    rec(a)
            elif tag in ("item", "idx"):
                rec(t[1])
                ops.add(tag)
            elif tag == "env":
                ops.add("env:" + str(t[1]))
                for x in t[2]:
                    rec(x)
            else:
                for x in t:
                    rec(x)
        elif isinstance(t, str) and t.startswith("call:"):
            pass

    rec(v)
    return atoms, ops

"""Abstract values of the cfdpsa interpreter (all hashable, immutable).

Python constants (None, True, False, small ints, str, bytes) stand for themselves.  Everything a
handler computes from its inputs that is not finite-domain is an *origin term* (`Sym`): an
uninterpreted expression over named inputs.  Integers are kept in a linear normal form so that
`a + 1 >= b`, `b <= a + 1`, `a >= b - 1` are one shape.  No solver is involved anywhere; unknown
comparisons fork the analysis state and are remembered per path (interval facts per linear form)."""
from __future__ import annotations

from typing import Any, NamedTuple


class E(NamedTuple):
    """enum member"""
    cls: str
    name: str

    def __repr__(self) -> str:
        return f"{self.cls}.{self.name}"


class Sym(NamedTuple):
    """opaque non-null origin term"""
    t: tuple

    def __repr__(self) -> str:
        return show_term(self.t)


class Ref(NamedTuple):
    oid: int

    def __repr__(self) -> str:
        return f"@{self.oid}"


class Tup(NamedTuple):
    items: tuple

    def __repr__(self) -> str:
        return "(" + ", ".join(map(repr, self.items)) + ")"


class Lst(NamedTuple):
    """abstract list/deque value: exact prefix `items`; `more` = unknown further items"""
    items: tuple
    more: bool = False

    def __repr__(self) -> str:
        return "[" + ", ".join(map(repr, self.items)) + (", ..." if self.more else "") + "]"


class Dct(NamedTuple):
    """concrete dict with abstract-constant keys"""
    items: tuple  # ((k, v), ...)

    def __repr__(self) -> str:
        return "{" + ", ".join(f"{k!r}: {v!r}" for k, v in self.items) + "}"


class FreeDict(NamedTuple):
    """dict with a known key set whose values are per-path oracles from `dom`"""
    keys: tuple
    dom: tuple
    tag: str


class UnkIter(NamedTuple):
    """unknown iterable: between lo and hi (bounded) iterations of items built by `mk`"""
    base: tuple  # origin term
    lo: int
    shape: str  # 'any' | 'pair'

    def __repr__(self) -> str:
        return f"iter<{show_term(self.base)}>"


class Pdu(NamedTuple):
    """outbound PDU constructed by the handler"""
    kind: str
    fields: tuple  # sorted ((name, value), ...)
    site: str

    def get(self, name: str, default: Any = None) -> Any:
        for k, v in self.fields:
            if k == name:
                return v
        return default

    def __repr__(self) -> str:
        return f"Pdu<{self.kind}>"


class Holder(NamedTuple):
    pdu: Any

    def __repr__(self) -> str:
        return f"Holder({self.pdu!r})"


class ClsV(NamedTuple):
    q: str  # repo class (qualified) or library class (qualified/simple)
    repo: bool


class FnV(NamedTuple):
    q: str  # repo function qualname
    self_: Any  # bound receiver or None


class LibFn(NamedTuple):
    name: str  # library callable, e.g. 'len', 'spacepackets...NakPdu', method names as 'Countdown.timed_out'
    self_: Any


class Lazy(NamedTuple):
    """field value decided on first read (forks), then remembered on the path"""
    dom: tuple
    tag: str


class FSym(NamedTuple):
    """unresolved configuration value with a finite domain: stays symbolic while it is only passed
    along, is decided (fork) when tested or stored into handler state"""
    tag: str
    dom: tuple
    oid: int
    field: str

    def __repr__(self) -> str:
        return f"<{self.tag}>"


class ExcV(NamedTuple):
    cls: str
    args: tuple


class Rec(NamedTuple):
    """immutable record built by a library constructor (MetadataParams, TransactionId, ...)"""
    cls: str
    fields: tuple

    def get(self, name: str, default: Any = None) -> Any:
        for k, v in self.fields:
            if k == name:
                return v
        return default

    def __repr__(self) -> str:
        return f"{self.cls}(" + ", ".join(f"{k}={v!r}" for k, v in self.fields) + ")"


# ------------------------------------------------------------------------------------ terms

def atom(name: str) -> Sym:
    return Sym(("a", name))


def app(f: str, *args: Any) -> Sym:
    return Sym(("app", f, tuple(args)))


def show_term(t: Any) -> str:
    if isinstance(t, Sym):
        return show_term(t.t)
    if not isinstance(t, tuple) or not t:
        return repr(t)
    tag = t[0]
    if tag == "a":
        return str(t[1])
    if tag == "app":
        return f"{t[1]}(" + ", ".join(show_term(a) if isinstance(a, (tuple, Sym)) else repr(a) for a in t[2]) + ")"
    if tag == "attr":
        return f"{show_term(t[1])}.{t[2]}"
    if tag == "lin":
        parts = []
        for a, c in t[1]:
            s = show_term(a)
            parts.append(s if c == 1 else (f"-{s}" if c == -1 else f"{c}*{s}"))
        if t[2] or not parts:
            parts.append(str(t[2]))
        return "(" + " + ".join(parts).replace("+ -", "- ") + ")"
    if tag == "item":
        return f"{show_term(t[1])}[#{t[2]}]"
    if tag == "idx":
        return f"{show_term(t[1])}[{t[2]}]"
    if tag == "env":
        return f"{t[1]}(" + ", ".join(repr(a) for a in t[2]) + ")"
    return repr(t)


def is_int_like(v: Any) -> bool:
    return (isinstance(v, int) and not isinstance(v, bool)) or isinstance(v, Sym)


def to_lin(v: Any) -> tuple[dict, int] | None:
    """value -> ({atom-term: coef}, const) or None if not an integer-like value"""
    if isinstance(v, bool):
        return None
    if isinstance(v, int):
        return {}, v
    if isinstance(v, Sym):
        if v.t and v.t[0] == "lin":
            return dict(v.t[1]), v.t[2]
        return {v.t: 1}, 0
    return None


def from_lin(d: dict, c: int) -> Any:
    d = {a: k for a, k in d.items() if k != 0}
    if not d:
        return c
    if c == 0 and len(d) == 1:
        (a, k), = d.items()
        if k == 1:
            return Sym(a)
    return Sym(("lin", tuple(sorted(d.items(), key=lambda x: repr(x[0]))), c))


def lin_add(a: Any, b: Any, sign: int = 1) -> Any | None:
    la, lb = to_lin(a), to_lin(b)
    if la is None or lb is None:
        return None
    d = dict(la[0])
    for k, v in lb[0].items():
        d[k] = d.get(k, 0) + sign * v
    return from_lin(d, la[1] + sign * lb[1])


def lin_form(a: Any, b: Any) -> tuple[tuple, int, int] | None:
    """a - b  ->  (canonical atoms part with positive leading coef, const, sign) or None.
    The returned form F and const c satisfy  a - b == sign * (F + c')... we return
    (form, c, sign) with  a - b = sign*form_value + c  where form has leading coef > 0."""
    d = lin_add(a, b, -1)
    l = to_lin(d)
    if l is None:
        return None
    atoms, c = l
    if not atoms:
        return (), c, 1
    items = sorted(atoms.items(), key=lambda x: repr(x[0]))
    sign = 1 if items[0][1] > 0 else -1
    form = tuple((a_, k * sign) for a_, k in items)
    return form, c, sign


def freeze(v: Any) -> Any:
    return v


def short(v: Any, n: int = 120) -> str:
    s = repr(v)
    return s if len(s) <= n else s[: n - 3] + "..."

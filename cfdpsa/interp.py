"""L2 - structured (AST-directed, big-step) abstract interpreter for the statement and expression
kinds used by /repo/src/cfdppy.  Path-sensitive over finite domains (enum members, booleans,
nullness, small exact integers), origin terms for everything else (see values.py).

The interpreter never imports or runs the analysed code.  Anything it does not understand is an
AnalysisError (exit 2), never a guess."""
from __future__ import annotations

import ast
import sys
from typing import Any, NamedTuple

from .model import AnalysisError, ClassInfo, FuncInfo, Program, REPO, norm
from .values import (
    E, ClsV, Dct, ExcV, FnV, FreeDict, FSym, Holder, Lazy, LibFn, Lst, Pdu, Rec, Ref, Sym, Tup, UnkIter,
    app, atom, from_lin, lin_add, lin_form, to_lin,
)

sys.setrecursionlimit(20000)

BUILTIN_EXC = {
    "Exception": None, "BaseException": None,
    "ValueError": "Exception", "TypeError": "Exception", "AttributeError": "Exception",
    "AssertionError": "Exception", "KeyError": "LookupError", "IndexError": "LookupError",
    "LookupError": "Exception", "OSError": "Exception", "FileNotFoundError": "OSError",
    "PermissionError": "OSError", "FileExistsError": "OSError", "IsADirectoryError": "OSError",
    "NotImplementedError": "RuntimeError", "RuntimeError": "Exception", "StopIteration": "Exception",
    "ZeroDivisionError": "ArithmeticError", "ArithmeticError": "Exception", "struct.error": "Exception",
}


class ExcInfo(NamedTuple):
    cls: str
    origin: str  # explicit | assert | none-deref | lib | env | type-none
    site: str
    detail: str = ""
    func: str = ""


class Event(NamedTuple):
    kind: str  # store | env | enq | alloc | raise | choice | call | note
    name: str
    args: tuple
    site: str
    func: str
    watch: tuple = ()


class Frame(NamedTuple):
    fi: FuncInfo | None
    module: str
    cls: str | None


class Store:
    __slots__ = ("heap", "loc", "facts", "ch", "ev", "nid", "mon", "_key")

    def __init__(self) -> None:
        self.heap: dict[int, dict[str, Any]] = {}
        self.loc: dict[str, Any] = {}
        self.facts: dict[tuple, tuple] = {}
        self.ch: dict[Any, Any] = {}
        self.ev: tuple = ()
        self.nid: int = 1
        self.mon: dict[str, Any] = {}
        self._key = None

    def fork(self) -> "Store":
        s = Store.__new__(Store)
        s.heap = dict(self.heap)
        s.loc = self.loc
        s.facts = self.facts
        s.ch = self.ch
        s.ev = self.ev
        s.nid = self.nid
        s.mon = self.mon
        s._key = None
        return s

    # all writers copy the touched container (stores share sub-structures after fork)
    def set_loc(self, name: str, v: Any) -> None:
        self.loc = {**self.loc, name: v}
        self._key = None

    def set_field(self, oid: int, name: str, v: Any) -> None:
        self.heap[oid] = {**self.heap[oid], name: v}
        self._key = None

    def set_fact(self, form: tuple, iv: tuple) -> None:
        self.facts = {**self.facts, form: iv}

    def set_choice(self, k: Any, v: Any) -> None:
        self.ch = {**self.ch, k: v}

    def set_mon(self, k: str, v: Any) -> None:
        self.mon = {**self.mon, k: v}
        self._key = None

    def add_event(self, ev: Event) -> None:
        # saturate runs of identical events (loops)
        if len(self.ev) >= 2 and self.ev[-1] == ev and self.ev[-2] == ev:
            return
        self.ev = self.ev + (ev,)
        self._key = None

    def alloc(self, cls: str, fields: dict[str, Any]) -> Ref:
        oid = self.nid
        self.nid += 1
        d = dict(fields)
        d["$cls"] = cls
        self.heap[oid] = d
        self._key = None
        return Ref(oid)

    def key(self) -> tuple:
        """identity of a store *modulo* path choices and interval facts: stores that agree on heap,
        locals, events and sticky oracles are merged, keeping only the choices/facts they share"""
        if self._key is None:
            self._key = (
                frozenset((o, frozenset(d.items())) for o, d in self.heap.items()),
                frozenset(self.loc.items()),
                self.ev,
                frozenset(self.mon.items()),
            )
        return self._key

    def invalidate(self, atom_name: str) -> None:
        if self.facts:
            f2 = {k: v for k, v in self.facts.items() if atom_name not in repr(k)}
            if len(f2) != len(self.facts):
                self.facts = f2
        if self.ch:
            c2 = {k: v for k, v in self.ch.items() if atom_name not in repr(k)}
            if len(c2) != len(self.ch):
                self.ch = c2

    def merge_from(self, other: "Store") -> None:
        if self.ch is not other.ch:
            self.ch = {k: v for k, v in self.ch.items() if k in other.ch and other.ch[k] == v}
        if self.facts is not other.facts:
            self.facts = {k: v for k, v in self.facts.items() if other.facts.get(k) == v}

    def cls_of(self, r: Ref) -> str:
        return self.heap[r.oid]["$cls"]


def _k0(x: tuple) -> str:
    return x[0]


NO_MERGE = False  # focused runs: keep every path's choices (no join by intersection)


def dedup(sts: list[Store]) -> list[Store]:
    if len(sts) < 2:
        return sts
    if NO_MERGE:
        seen0: dict = {}
        for s in sts:
            seen0.setdefault((s.key(), tuple(s.ch.items())), s)
        return list(seen0.values())
    seen: dict = {}
    for s in sts:
        k = s.key()
        if k not in seen:
            seen[k] = s
        elif seen[k] is not s:
            r = seen[k]
            if r.ch is not s.ch or r.facts is not s.facts:
                r = r.fork()
                r._key = k
                r.merge_from(s)
                seen[k] = r
    return list(seen.values())


def dedup_pairs(ps: list[tuple[Any, Store]]) -> list[tuple[Any, Store]]:
    if len(ps) < 2:
        return ps
    if NO_MERGE:
        seen0: dict = {}
        for v, s in ps:
            seen0.setdefault((v, s.key(), tuple(s.ch.items())), (v, s))
        return list(seen0.values())
    seen: dict = {}
    for v, s in ps:
        k = (v, s.key())
        if k not in seen:
            seen[k] = (v, s)
        elif seen[k][1] is not s:
            r = seen[k][1]
            if r.ch is not s.ch or r.facts is not s.facts:
                r = r.fork()
                r._key = k[1]
                r.merge_from(s)
                seen[k] = (v, r)
    return list(seen.values())


class Flow:
    __slots__ = ("normal", "rets", "brk", "cont")

    def __init__(self) -> None:
        self.normal: list[Store] = []
        self.rets: list[tuple[Any, Store]] = []
        self.brk: list[Store] = []
        self.cont: list[Store] = []


class Interp:
    def __init__(self, prog: Program, lib: Any, k_iter: int = 2, k_while: int = 3, max_rec: int = 2,
                 max_stores: int = 200000) -> None:
        self.prog = prog
        self.lib = lib
        lib.ip = self
        self.k_iter = k_iter
        self.k_while = k_while
        self.max_rec = max_rec
        self.max_stores = max_stores
        self.stack: list[str] = []
        self.assumptions: dict[str, int] = {}
        self.notes: dict[str, int] = {}
        self.unresolved_calls: dict[str, int] = {}
        self.calls_total = 0
        self.calls_repo = 0
        self.calls_lib = 0
        self.watch = None  # callable(store) -> tuple, set by the driver
        self.stmt_count = 0
        self.funcs_entered: set[str] = set()
        self.keep_terms: set[str] | None = None  # None: keep every origin term (focused runs)
        self.exact_fields: set[str] = set()
        self._relpath: dict[str, str] = {}
        self.try_stack: list[list[str]] = []
        self.track_stale = False
        self.nonsticky_tags: set[str] = {"remote_cfg.max_file_segment_len"}
        self.env_uncaught: dict[tuple, int] = {}
        self.zero_fields: set[str] = set()  # integer fields whose value 0 is kept apart from "some integer"
        self.ignore_fields: set[str] = set()  # finite-valued fields no rule looks at (always summarised)

    # ------------------------------------------------------------------ helpers
    def site(self, fr: Frame, n: ast.AST) -> str:
        rel = self._relpath.get(fr.module)
        if rel is None:
            f = self.prog.modules[fr.module].path
            try:
                rel = str(f.relative_to(REPO))
            except ValueError:
                rel = str(f)
            self._relpath[fr.module] = rel
        return f"{rel}:{getattr(n, 'lineno', 0)}"

    def assume(self, what: str) -> None:
        self.assumptions[what] = self.assumptions.get(what, 0) + 1

    def note(self, what: str) -> None:
        self.notes[what] = self.notes.get(what, 0) + 1

    def event(self, st: Store, kind: str, name: str, args: tuple, site: str) -> None:
        w = self.watch(st) if self.watch else ()
        st.add_event(Event(kind, name, args, site, self.stack[-1] if self.stack else "", w))

    def would_catch(self, exc_cls: str) -> bool:
        """is some enclosing `try` of the active call stack able to catch exc_cls?"""
        for names in self.try_stack:
            for nm in names:
                if self.exc_matches(exc_cls, nm):
                    return True
        return False

    def is_exc_class(self, q: str) -> bool:
        simple = q.split(".")[-1]
        if simple in BUILTIN_EXC or q in BUILTIN_EXC:
            return True
        for ci in self.prog.mro(q):
            for b in ci.bases:
                if b.split(".")[-1] in BUILTIN_EXC:
                    return True
        return False

    def exc_matches(self, exc_cls: str, handler: str) -> bool:
        if handler in ("Exception", "BaseException"):
            return True
        c: str | None = exc_cls
        seen = 0
        while c is not None and seen < 10:
            if c == handler:
                return True
            if c in BUILTIN_EXC:
                c = BUILTIN_EXC[c]
            else:
                ci = self.prog.class_by_simple(c)
                nxt = None
                if ci is not None:
                    for b in ci.bases:
                        nxt = b.split(".")[-1]
                        break
                c = nxt
            seen += 1
        return False

    # ------------------------------------------------------------------ blocks and statements
    def exec_block(self, stmts: list[ast.stmt], sts: list[Store], fr: Frame, ex: list) -> Flow:
        flow = Flow()
        cur = sts
        for s in stmts:
            if not cur:
                break
            if len(cur) > self.max_stores:
                raise AnalysisError(f"state explosion at {self.site(fr, s)}: {len(cur)} stores")
            nxt: list[Store] = []
            m = getattr(self, "s_" + type(s).__name__, None)
            if m is None:
                raise AnalysisError(f"unsupported statement {type(s).__name__} at {self.site(fr, s)}")
            self.stmt_count += len(cur)
            for st in cur:
                m(s, st, fr, ex, flow, nxt)
            cur = dedup(nxt)
        flow.normal = cur
        return flow

    def s_Pass(self, s, st, fr, ex, flow, nxt):
        nxt.append(st)

    def s_Expr(self, s, st, fr, ex, flow, nxt):
        if isinstance(s.value, ast.Constant):  # docstring
            nxt.append(st)
            return
        for _, st2 in self.eval(s.value, st, fr, ex):
            nxt.append(st2)

    def s_Return(self, s, st, fr, ex, flow, nxt):
        if s.value is None:
            flow.rets.append((None, st))
            return
        for v, st2 in self.eval(s.value, st, fr, ex):
            flow.rets.append((v, st2))

    def s_Break(self, s, st, fr, ex, flow, nxt):
        flow.brk.append(st)

    def s_Continue(self, s, st, fr, ex, flow, nxt):
        flow.cont.append(st)

    def s_Assign(self, s, st, fr, ex, flow, nxt):
        for v, st2 in self.eval(s.value, st, fr, ex):
            cur = [st2]
            for t in s.targets:
                out = []
                for st3 in cur:
                    out.extend(self.assign(t, v, st3, fr, ex))
                cur = out
            nxt.extend(cur)

    def s_AnnAssign(self, s, st, fr, ex, flow, nxt):
        if s.value is None:
            nxt.append(st)
            return
        for v, st2 in self.eval(s.value, st, fr, ex):
            nxt.extend(self.assign(s.target, v, st2, fr, ex))

    def s_AugAssign(self, s, st, fr, ex, flow, nxt):
        load = _as_load(s.target)
        for cur, st2 in self.eval(load, st, fr, ex):
            for rhs, st3 in self.eval(s.value, st2, fr, ex):
                for v, st4 in self.binop(s.op, cur, rhs, st3, fr, s, ex):
                    nxt.extend(self.assign(s.target, v, st4, fr, ex, aug=True))

    def s_If(self, s, st, fr, ex, flow, nxt):
        t_sts, f_sts = [], []
        for v, st2 in self.eval(s.test, st, fr, ex):
            for b, st3 in self.truth(v, st2, fr, s.test):
                (t_sts if b else f_sts).append(st3)
        for branch, bs in ((s.body, t_sts), (s.orelse, f_sts)):
            if not bs:
                continue
            if not branch:
                nxt.extend(bs)
                continue
            f2 = self.exec_block(branch, dedup(bs), fr, ex)
            nxt.extend(f2.normal)
            flow.rets.extend(f2.rets)
            flow.brk.extend(f2.brk)
            flow.cont.extend(f2.cont)

    def s_Assert(self, s, st, fr, ex, flow, nxt):
        for v, st2 in self.eval(s.test, st, fr, ex):
            if isinstance(v, Sym) or isinstance(v, (Lst, UnkIter)) and getattr(v, "more", True):
                self.assume(f"assert on untracked value assumed true: {norm(s)}")
                nxt.append(st2)
                continue
            for b, st3 in self.truth(v, st2, fr, s.test):
                if b:
                    nxt.append(st3)
                else:
                    ex.append((ExcInfo("AssertionError", "assert", self.site(fr, s), norm(s)), st3))

    def s_Raise(self, s, st, fr, ex, flow, nxt):
        if s.exc is None:
            raise AnalysisError(f"bare raise unsupported at {self.site(fr, s)}")
        for v, st2 in self.eval(s.exc, st, fr, ex):
            if isinstance(v, ExcV):
                cls = v.cls
            elif isinstance(v, ClsV):
                cls = v.q.split(".")[-1]
            else:
                raise AnalysisError(f"raise of non-exception value {v!r} at {self.site(fr, s)}")
            st2 = st2.fork()
            self.event(st2, "raise", cls, (), self.site(fr, s))
            ex.append((ExcInfo(cls, "explicit", self.site(fr, s), norm(s)[:100]), st2))

    def s_Try(self, s, st, fr, ex, flow, nxt):
        if s.finalbody:
            raise AnalysisError(f"try/finally unsupported at {self.site(fr, s)}")
        inner: list = []
        hnames: list[str] = []
        for h in s.handlers:
            if h.type is None:
                hnames.append("BaseException")
            elif isinstance(h.type, ast.Tuple):
                hnames.extend(ast.unparse(e).split(".")[-1] for e in h.type.elts)
            else:
                hnames.append(ast.unparse(h.type).split(".")[-1])
        self.try_stack.append(hnames)
        try:
            f2 = self.exec_block(s.body, [st], fr, inner)
        finally:
            self.try_stack.pop()
        flow.rets.extend(f2.rets)
        flow.brk.extend(f2.brk)
        flow.cont.extend(f2.cont)
        if s.orelse and f2.normal:
            f3 = self.exec_block(s.orelse, f2.normal, fr, ex)
            nxt.extend(f3.normal)
            flow.rets.extend(f3.rets)
            flow.brk.extend(f3.brk)
            flow.cont.extend(f3.cont)
        else:
            nxt.extend(f2.normal)
        for ei, est in inner:
            handled = False
            for h in s.handlers:
                names = []
                if h.type is None:
                    names = ["BaseException"]
                elif isinstance(h.type, ast.Tuple):
                    names = [ast.unparse(e).split(".")[-1] for e in h.type.elts]
                else:
                    names = [ast.unparse(h.type).split(".")[-1]]
                if any(self.exc_matches(ei.cls, nm) for nm in names):
                    handled = True
                    hst = est.fork()
                    self.event(hst, "caught", ei.cls, (ei.origin, ei.site), self.site(fr, h))
                    if h.name:
                        hst.set_loc(h.name, ExcV(ei.cls, ()))
                    f4 = self.exec_block(h.body, [hst], fr, ex)
                    nxt.extend(f4.normal)
                    flow.rets.extend(f4.rets)
                    flow.brk.extend(f4.brk)
                    flow.cont.extend(f4.cont)
                    break
            if not handled:
                ex.append((ei, est))

    def s_While(self, s, st, fr, ex, flow, nxt):
        if s.orelse:
            raise AnalysisError(f"while/else unsupported at {self.site(fr, s)}")
        cur = [st]
        seen: set = set()
        for it in range(self.k_while + 1):
            body_in = []
            for c in cur:
                k = c.key()
                if k in seen:
                    continue
                seen.add(k)
                for v, st2 in self.eval(s.test, c, fr, ex):
                    for b, st3 in self.truth(v, st2, fr, s.test):
                        if b:
                            body_in.append(st3)
                        else:
                            nxt.append(st3)
            if not body_in:
                return
            if it == self.k_while:
                self.assume(f"while loop cut after {self.k_while} iterations: {self.site(fr, s)} {norm(s)}")
                # force exit: keep the states as if the loop ended here (their facts say the test held;
                # only finite-domain state and events matter to the rules)
                nxt.extend(body_in)
                return
            f2 = self.exec_block(s.body, dedup(body_in), fr, ex)
            flow.rets.extend(f2.rets)
            nxt.extend(f2.brk)
            cur = dedup(f2.normal + f2.cont)

    def s_For(self, s, st, fr, ex, flow, nxt):
        if s.orelse:
            raise AnalysisError(f"for/else unsupported at {self.site(fr, s)}")
        for itv, st2 in self.eval(s.iter, st, fr, ex):
            self._for_over(s, itv, st2, fr, ex, flow, nxt)

    def _iter_items(self, itv: Any, site: str) -> tuple[list[Any], int, bool]:
        """-> (items to iterate in order, minimum number of iterations, open_ended)"""
        if isinstance(itv, (Tup,)):
            return list(itv.items), len(itv.items), False
        if isinstance(itv, Lst):
            items = list(itv.items)
            if itv.more:
                extra = [Sym(("item", ("a", f"list-tail@{site}"), i)) for i in range(self.k_iter)]
                return items + extra, len(items), True
            return items, len(items), False
        if isinstance(itv, Dct):
            return [k for k, _ in itv.items], len(itv.items), False
        if isinstance(itv, UnkIter):
            n = max(self.k_iter, itv.lo)
            if itv.shape == "pair":
                items = [Tup((Sym(("idx", ("item", itv.base, i), 0)), Sym(("idx", ("item", itv.base, i), 1)))) for i in range(n)]
            else:
                items = [Sym(("item", itv.base, i)) for i in range(n)]
            return items, itv.lo, True
        if isinstance(itv, Sym):
            return [Sym(("item", itv.t, i)) for i in range(self.k_iter)], 0, True
        raise AnalysisError(f"cannot iterate over {itv!r} at {site}")

    def _for_over(self, s, itv, st, fr, ex, flow, nxt):
        items, lo, open_ended = self._iter_items(itv, self.site(fr, s))
        ikey = None
        if open_ended and isinstance(itv, (UnkIter, Sym)):
            # the same unknown collection has the same number of elements each time it is iterated
            # on one path (e.g. validate-all-then-handle-all over one list of segment requests)
            ikey = "iter:" + repr(itv)
            known = st.mon.get(ikey)
            if known is not None:
                items = items[:known]
                lo = len(items)
                open_ended = False
        cur = [st]
        for i, item in enumerate(items):
            if i >= lo:
                if ikey is not None:
                    for c in cur:
                        c2 = c.fork()
                        c2.set_mon(ikey, i)
                        nxt.append(c2)
                else:
                    nxt.extend(cur)  # the iterable may end here
            body_in = []
            for c in cur:
                body_in.extend(self.assign(s.target, item, c, fr, ex))
            f2 = self.exec_block(s.body, dedup(body_in), fr, ex)
            flow.rets.extend(f2.rets)
            nxt.extend(f2.brk)
            cur = dedup(f2.normal + f2.cont)
            if not cur:
                break
        if open_ended and cur:
            self.assume(f"iteration over an unknown collection explored up to {len(items)} elements: {self.site(fr, s)}")
            if ikey is not None:
                cur2 = []
                for c in cur:
                    c2 = c.fork()
                    c2.set_mon(ikey, len(items))
                    cur2.append(c2)
                cur = cur2
        nxt.extend(cur)

    def s_With(self, s, st, fr, ex, flow, nxt):
        # context managers in handler code are host file objects (C16 reports them); they are
        # modelled as opaque values so that the other analyses still cover the code
        cur = [st]
        for it in s.items:
            nx = []
            for c in cur:
                for v, c2 in self.eval(it.context_expr, c, fr, ex):
                    if it.optional_vars is not None:
                        nx.extend(self.assign(it.optional_vars, v, c2, fr, ex))
                    else:
                        nx.append(c2)
            cur = nx
        if cur:
            f2 = self.exec_block(s.body, dedup(cur), fr, ex)
            nxt.extend(f2.normal)
            flow.rets.extend(f2.rets)
            flow.brk.extend(f2.brk)
            flow.cont.extend(f2.cont)

    def s_Delete(self, s, st, fr, ex, flow, nxt):
        cur = [st]
        for t in s.targets:
            nx = []
            for c in cur:
                if isinstance(t, ast.Subscript):
                    for cv, c2 in self.eval(t.value, c, fr, ex):
                        for kv, c3 in self.eval(t.slice, c2, fr, ex):
                            if isinstance(cv, Dct):
                                if not any(k == kv for k, _ in cv.items):
                                    ex.append((ExcInfo("KeyError", "lib", self.site(fr, s), norm(s)), c3))
                                    continue
                                nx.extend(self.assign(t.value, Dct(tuple((k, v) for k, v in cv.items if k != kv)), c3, fr, ex, aug=True))
                            else:
                                raise AnalysisError(f"unsupported del on {cv!r} at {self.site(fr, s)}")
                elif isinstance(t, ast.Name):
                    c2 = c.fork()
                    c2.loc = {k: v for k, v in c2.loc.items() if k != t.id}
                    c2._key = None
                    nx.append(c2)
                else:
                    raise AnalysisError(f"unsupported del target at {self.site(fr, s)}")
            cur = nx
        nxt.extend(cur)

    def s_FunctionDef(self, s, st, fr, ex, flow, nxt):
        raise AnalysisError(f"nested function unsupported at {self.site(fr, s)}")

    # ------------------------------------------------------------------ assignment
    def assign(self, t: ast.expr, v: Any, st: Store, fr: Frame, ex: list, aug: bool = False) -> list[Store]:
        if isinstance(t, ast.Name):
            st2 = st.fork()
            st2.set_loc(t.id, v)
            return [st2]
        if isinstance(t, ast.Attribute):
            out = []
            for ov, st2 in self.eval(t.value, st, fr, ex):
                out.extend(self.store_attr(ov, t.attr, v, st2, fr, t, ex, aug))
            return out
        if isinstance(t, (ast.Tuple, ast.List)):
            n = len(t.elts)
            if isinstance(v, Tup) and len(v.items) == n:
                parts = list(v.items)
            elif isinstance(v, Sym):
                parts = [Sym(("idx", v.t, i)) for i in range(n)]
            else:
                raise AnalysisError(f"cannot unpack {v!r} at {self.site(fr, t)}")
            cur = [st]
            for te, pv in zip(t.elts, parts):
                nx = []
                for c in cur:
                    nx.extend(self.assign(te, pv, c, fr, ex))
                cur = nx
            return cur
        if isinstance(t, ast.Subscript):
            out = []
            for cv, st2 in self.eval(t.value, st, fr, ex):
                for kv, st3 in self.eval(t.slice, st2, fr, ex):
                    if isinstance(cv, Dct):
                        items = dict(cv.items)
                        items[kv] = v
                        out.extend(self.assign(t.value, Dct(tuple(items.items())), st3, fr, ex, aug=True))
                    elif isinstance(cv, Lst) and isinstance(kv, int) and -len(cv.items) <= kv < len(cv.items):
                        items2 = list(cv.items)
                        items2[kv] = v
                        out.extend(self.assign(t.value, Lst(tuple(items2), cv.more), st3, fr, ex, aug=True))
                    elif isinstance(cv, Sym):
                        out.append(st3)  # store into an untracked container
                    else:
                        raise AnalysisError(f"unsupported subscript store into {cv!r} at {self.site(fr, t)}")
            return out
        raise AnalysisError(f"unsupported assignment target {type(t).__name__} at {self.site(fr, t)}")

    def store_attr(self, ov: Any, name: str, v: Any, st: Store, fr: Frame, n: ast.AST, ex: list, aug: bool = False) -> list[Store]:
        if isinstance(v, FSym):
            out = []
            for v2, s2 in self.force(v, st):
                out.extend(self.store_attr(ov, name, v2, s2, fr, n, ex, aug))
            return out
        site = self.site(fr, n)
        if ov is None:
            ex.append((ExcInfo("AttributeError", "none-deref", site, f"store to .{name} of None"), st))
            return []
        if isinstance(ov, Ref):
            cls = st.cls_of(ov)
            ci = self.prog.classes.get(cls)
            if ci is not None:
                setter = self.prog.find_setter(cls, name)
                if setter is not None:
                    out = []
                    for _, st2 in self.call_repo(setter, ov, [v], {}, st, ex, site):
                        out.append(st2)
                    return out
            st2 = st.fork()
            fq = f"{cls.split('.')[-1]}.{name}"
            if fq in self.ignore_fields or (
                    self.keep_terms is not None and fq not in self.keep_terms and fq not in self.exact_fields
                    and not (_finite(v) and not (v == 0 and isinstance(v, int) and not isinstance(v, bool) and fq not in self.zero_fields))):
                # untracked value: the field is summarised by one canonical atom ("current value of
                # the field"); facts and choices about the previous value are dropped
                a = f"${fq}"
                st2.set_field(ov.oid, name, Sym(("a", a)))
                st2.invalidate(a)
                self.event(st2, "store", fq, ("<untracked>", ov.oid, "aug" if aug else "set"), site)
                return [st2]
            st2.set_field(ov.oid, name, v)
            self.event(st2, "store", fq, (v, ov.oid, "aug" if aug else "set"), site)
            return [st2]
        if isinstance(ov, Sym):
            # store into an untracked library object: no tracked effect
            st2 = st.fork()
            self.event(st2, "store", f"?{ov!r}.{name}", (v, 0, "set"), site)
            return [st2]
        raise AnalysisError(f"attribute store on {ov!r} at {site}")

    # ------------------------------------------------------------------ stale-value taint (C11)
    def stale_use(self, vals: tuple, what: str, st: Store, site: str) -> Store:
        """records the use of a value marked E('$STALE', field): a read of state left over from an
        earlier transaction"""
        if not self.track_stale:
            return st
        hit = [v.name for v in vals if isinstance(v, E) and v.cls == "$STALE"]
        if not hit:
            for v in vals:
                if isinstance(v, (Tup, Lst, Rec, Pdu)) and "$STALE." in repr(v):
                    hit.append(repr(v)[:60])
        if not hit:
            return st
        s2 = st.fork()
        for h in hit:
            self.event(s2, "stale-use", h, (what,), site)
        return s2

    # ------------------------------------------------------------------ truth / compare
    def force(self, v: Any, st: Store) -> list[tuple[Any, Store]]:
        if not isinstance(v, FSym):
            return [(v, st)]
        cur = st.heap[v.oid].get(v.field)
        if not isinstance(cur, Lazy):
            return [(cur, st)]
        if v.tag in self.nonsticky_tags:
            # a configuration value no rule looks at: decided per test, not remembered in the heap
            return list(self.fork_dom(("lazy", v.tag), v.dom, st))
        out = []
        for d, s2 in self.fork_dom(("lazy", v.tag), v.dom, st):
            s3 = s2.fork()
            s3.set_field(v.oid, v.field, d)
            out.append((d, s3))
        return out

    def truth(self, v: Any, st: Store, fr: Frame, n: ast.AST) -> list[tuple[bool, Store]]:
        if isinstance(v, FSym):
            out = []
            for v2, s2 in self.force(v, st):
                out.extend(self.truth(v2, s2, fr, n))
            return out
        if v is None or v is False:
            return [(False, st)]
        if v is True:
            return [(True, st)]
        if isinstance(v, bool):
            return [(v, st)]
        if isinstance(v, E) and v.cls == "$STALE":
            st = self.stale_use((v,), "tested", st, self.site(fr, n))
            return self.fork_bool(("truth", v), st)
        if isinstance(v, int):
            return [(v != 0, st)]
        if isinstance(v, (str, bytes)):
            return [(len(v) > 0, st)]
        if isinstance(v, (Ref, E, ClsV, FnV, LibFn, Pdu, Holder, Rec, ExcV)):
            if isinstance(v, E):
                if v.name == "$OTHER":
                    return self.fork_bool(("truth", v), st)
                return [(not self.prog.enum_is_falsy(v.cls, v.name), st)]
            return [(True, st)]
        if isinstance(v, Tup):
            return [(len(v.items) > 0, st)]
        if isinstance(v, Lst):
            if v.items:
                return [(True, st)]
            if not v.more:
                return [(False, st)]
            return self.fork_bool(("truth", v), st)
        if isinstance(v, Dct):
            return [(len(v.items) > 0, st)]
        if isinstance(v, Sym):
            l = to_lin(v)
            if l is not None and v.t[0] == "lin":
                return [(not b, s) for b, s in self.cmp_lin("Eq", v, 0, st)]
            return self.fork_bool(("truth", v), st)
        if isinstance(v, UnkIter):
            return self.fork_bool(("truth", v), st)
        raise AnalysisError(f"truth value of {v!r} at {self.site(fr, n)}")

    def fork_bool(self, key: Any, st: Store) -> list[tuple[bool, Store]]:
        if key in st.ch:
            return [(st.ch[key], st)]
        out = []
        for b in (True, False):
            s2 = st.fork()
            s2.set_choice(key, b)
            out.append((b, s2))
        return out

    def fork_dom(self, key: Any, dom: tuple, st: Store, sticky: bool = False) -> list[tuple[Any, Store]]:
        if sticky:
            sk = "o:" + repr(key)
            if sk in st.mon:
                return [(st.mon[sk], st)]
        elif key in st.ch:
            return [(st.ch[key], st)]
        out = []
        for d in dom:
            s2 = st.fork()
            s2.set_choice(key, d)
            if sticky:
                s2.set_mon("o:" + repr(key), d)
            out.append((d, s2))
        return out

    def bounds(self, form: tuple, st: Store) -> tuple:
        """interval known for the linear form: the recorded fact, implicit bounds, and what follows
        from adding/subtracting two recorded facts (one bound-propagation step, no solver)"""
        lb, ub = st.facts.get(form, (None, None))
        ilb, iub = self._implicit_bounds(form)
        lb = ilb if lb is None else (lb if ilb is None else max(lb, ilb))
        ub = iub if ub is None else (ub if iub is None else min(ub, iub))
        if len(st.facts) + 1 < 2:
            return lb, ub
        tgt = dict(form)
        known = list(st.facts.items())
        # implicit facts for the single atoms of the target
        for a, _c in form:
            f1 = ((a, 1),)
            if f1 not in st.facts:
                ib = self._implicit_bounds(f1)
                if ib != (None, None):
                    known.append((f1, ib))
        for fa, (la, ua) in known:
            for sa in (1, -1):
                rest = dict(tgt)
                for a, c in fa:
                    rest[a] = rest.get(a, 0) - sa * c
                rest = {a: c for a, c in rest.items() if c != 0}
                # bounds of sa*A
                alo, ahi = (la, ua) if sa == 1 else (None if ua is None else -ua, None if la is None else -la)
                if not rest:
                    blo, bhi = 0, 0
                else:
                    items = sorted(rest.items(), key=lambda x: repr(x[0]))
                    sb = 1 if items[0][1] > 0 else -1
                    fb = tuple((a, c * sb) for a, c in items)
                    fbv = st.facts.get(fb)
                    if fbv is None:
                        fbv = self._implicit_bounds(fb)
                        if fbv == (None, None):
                            continue
                    lb_, ub_ = fbv
                    blo, bhi = (lb_, ub_) if sb == 1 else (None if ub_ is None else -ub_, None if lb_ is None else -lb_)
                if alo is not None and blo is not None:
                    lb = alo + blo if lb is None else max(lb, alo + blo)
                if ahi is not None and bhi is not None:
                    ub = ahi + bhi if ub is None else min(ub, ahi + bhi)
        return lb, ub

    def ask_ge(self, form: tuple, k: int, st: Store) -> list[tuple[bool, Store]]:
        """L >= k for the linear form L (atoms part), using and refining the interval fact"""
        lb, ub = self.bounds(form, st)
        if lb is not None and lb >= k:
            return [(True, st)]
        if ub is not None and ub < k:
            return [(False, st)]
        t, f = st.fork(), st.fork()
        t.set_fact(form, (k, ub))
        t.set_choice(("ge", form, k), True)
        f.set_fact(form, (lb, k - 1))
        f.set_choice(("ge", form, k), False)
        return [(True, t), (False, f)]

    def ask_eq(self, form: tuple, k: int, st: Store) -> list[tuple[bool, Store]]:
        lb, ub = self.bounds(form, st)
        if (lb is not None and lb > k) or (ub is not None and ub < k):
            return [(False, st)]
        if lb is not None and ub is not None and lb == ub == k:
            return [(True, st)]
        key = ("eq0", form, k)
        if key in st.ch:
            return [(st.ch[key], st)]
        t, f = st.fork(), st.fork()
        t.set_fact(form, (k, k))
        t.set_choice(key, True)
        nlb, nub = lb, ub
        if lb == k:
            nlb = k + 1
        if ub == k:
            nub = k - 1
        f.set_fact(form, (nlb, nub))
        f.set_choice(key, False)
        return [(True, t), (False, f)]

    @staticmethod
    def _implicit_bounds(form: tuple) -> tuple:
        if len(form) == 1 and form[0][1] == 1:
            a = form[0][0]
            if a and a[0] == "app" and a[1] == "len":
                return (0, None)
            # unsigned fields of an inbound PDU
            if a and a[0] == "a" and a[1] in ("pkt.offset", "pkt.file_size", "pkt.start_of_scope", "pkt.end_of_scope"):
                return (0, None)
            if a and a[0] == "idx" and "pkt.segment_requests" in repr(a):
                return (0, None)
        return (None, None)

    def cmp_lin(self, op: str, a: Any, b: Any, st: Store) -> list[tuple[bool, Store]] | None:
        lf = lin_form(a, b)
        if lf is None:
            return None
        form, c, sign = lf
        if form == ():
            d = c
            r = {"Eq": d == 0, "NotEq": d != 0, "Gt": d > 0, "GtE": d >= 0, "Lt": d < 0, "LtE": d <= 0}[op]
            return [(r, st)]

        def ge(m: int) -> list[tuple[bool, Store]]:
            # (a-b) >= m   with a-b = sign*L + c
            if sign == 1:
                return self.ask_ge(form, m - c, st)
            # -L + c >= m  <=>  L <= c-m  <=> not (L >= c-m+1)
            return [(not r_, s_) for r_, s_ in self.ask_ge(form, c - m + 1, st)]

        if op == "GtE":
            return ge(0)
        if op == "Gt":
            return ge(1)
        if op == "Lt":
            return [(not r_, s_) for r_, s_ in ge(0)]
        if op == "LtE":
            return [(not r_, s_) for r_, s_ in ge(1)]
        # a-b == 0  <=>  sign*L == -c  <=> L == -c*sign
        res = self.ask_eq(form, -c * sign, st)
        if op == "Eq":
            return res
        return [(not r_, s_) for r_, s_ in res]

    def compare(self, op: ast.cmpop, a: Any, b: Any, st: Store, fr: Frame, n: ast.AST, ex: list) -> list[tuple[bool, Store]]:
        if isinstance(a, FSym) or isinstance(b, FSym):
            out = []
            for a2, s2 in self.force(a, st):
                for b2, s3 in self.force(b, s2):
                    out.extend(self.compare(op, a2, b2, s3, fr, n, ex))
            return out
        o = type(op).__name__
        if self.track_stale and (_is_stale(a) or _is_stale(b)):
            st = self.stale_use((a, b), "compared", st, self.site(fr, n))
            return self.fork_bool(("cmp-stale", o, repr(a), repr(b)), st)
        if o in ("Is", "IsNot"):
            if a is None or b is None:
                r = (a is None) and (b is None)
            elif isinstance(a, (bool, E, Ref)) or isinstance(b, (bool, E, Ref)):
                r = a == b and type(a) is type(b)
            elif a == b:
                r = True
            else:
                res = self.fork_bool(("is", a, b), st)
                return res if o == "Is" else [(not x, s) for x, s in res]
            return [(r if o == "Is" else not r, st)]
        if o in ("Eq", "NotEq"):
            res = self.equal(a, b, st)
            return res if o == "Eq" else [(not x, s) for x, s in res]
        if o in ("Lt", "LtE", "Gt", "GtE"):
            if a is None or b is None:
                ex.append((ExcInfo("TypeError", "type-none", self.site(fr, n), f"ordering comparison with None: {norm(n)}"), st))
                return []
            r = self.cmp_lin(o, a, b, st)
            if r is not None:
                return r
            return self.fork_bool((o, a, b), st)
        if o in ("In", "NotIn"):
            res = self.contains(b, a, st, fr, n)
            return res if o == "In" else [(not x, s) for x, s in res]
        raise AnalysisError(f"unsupported comparison {o} at {self.site(fr, n)}")

    def equal(self, a: Any, b: Any, st: Store) -> list[tuple[bool, Store]]:
        if isinstance(a, bool) or isinstance(b, bool) or a is None or b is None:
            if isinstance(a, Sym) or isinstance(b, Sym):
                # opaque non-null value against None/bool constant
                if a is None or b is None:
                    return [(False, st)]
                return self.fork_bool(("eq", *sorted((repr(a), repr(b)))), st)
            return [(a == b and type(a) is type(b), st)]
        if is_intish(a) and is_intish(b):
            r = self.cmp_lin("Eq", a, b, st)
            if r is not None:
                return r
        if isinstance(a, E) and isinstance(b, E):
            if a.cls != b.cls:
                self.note(f"cross-enum comparison {a.cls} vs {b.cls} is constant false")
                return [(False, st)]
            if a.name == "$OTHER" and b.name == "$OTHER":
                return self.fork_bool(("eq", repr(a), repr(b)), st)
            if a.name == "$OTHER" or b.name == "$OTHER":
                # $OTHER stands for "some member the abstraction does not keep apart"; members the handler modules compare
                # against literally are kept apart, so only a comparison with any other literal is undecided
                lit = b if a.name == "$OTHER" else a
                if lit.name in self.prog.compared_members(a.cls) or lit.name in ("NO_ERROR", "NULL_CHECKSUM"):
                    return [(False, st)]
                return self.fork_bool(("eq", *sorted((repr(a), repr(b)))), st)
            return [(a.name == b.name, st)]
        if a == b:
            return [(True, st)]
        if _concrete(a) and _concrete(b):
            return [(False, st)]
        return self.fork_bool(("eq", *sorted((repr(a), repr(b)))), st)

    def contains(self, cont: Any, x: Any, st: Store, fr: Frame, n: ast.AST) -> list[tuple[bool, Store]]:
        if isinstance(cont, (Tup, Lst)):
            items = cont.items
            results: list[tuple[bool, Store]] = []
            cur = [st]
            for it in items:
                nx = []
                for c in cur:
                    for r, s2 in self.equal(x, it, c):
                        if r:
                            results.append((True, s2))
                        else:
                            nx.append(s2)
                cur = nx
            for c in cur:
                if isinstance(cont, Lst) and cont.more:
                    results.extend(self.fork_bool(("in", repr(x), repr(cont)), c))
                else:
                    results.append((False, c))
            return results
        if isinstance(cont, Dct):
            return self.contains(Tup(tuple(k for k, _ in cont.items)), x, st, fr, n)
        if isinstance(cont, FreeDict):
            return self.contains(Tup(cont.keys), x, st, fr, n)
        if isinstance(cont, (Sym, UnkIter)):
            return self.fork_bool(("in", repr(x), repr(cont)), st)
        if isinstance(cont, ClsV):
            simple = cont.q.split(".")[-1]
            is_enum = simple in self.prog.lib_enums or (cont.repo and self.prog.classes[cont.q].is_enum)
            if is_enum:
                if isinstance(x, E):
                    return [(x.cls == simple, st)]
                if x is None or isinstance(x, (bool, str, bytes)):
                    return [(False, st)]
                return self.fork_bool(("in", repr(x), simple), st)
        raise AnalysisError(f"membership test on {cont!r} at {self.site(fr, n)}")

    # ------------------------------------------------------------------ expressions
    def eval(self, n: ast.expr, st: Store, fr: Frame, ex: list) -> list[tuple[Any, Store]]:
        m = getattr(self, "e_" + type(n).__name__, None)
        if m is None:
            raise AnalysisError(f"unsupported expression {type(n).__name__} at {self.site(fr, n)}")
        return m(n, st, fr, ex)

    def eval_list(self, nodes: list[ast.expr], st: Store, fr: Frame, ex: list) -> list[tuple[list, Store]]:
        cur: list[tuple[list, Store]] = [([], st)]
        for nd in nodes:
            nx = []
            for vals, s in cur:
                for v, s2 in self.eval(nd, s, fr, ex):
                    nx.append((vals + [v], s2))
            cur = nx
        return cur

    def e_Constant(self, n, st, fr, ex):
        return [(n.value, st)]

    def e_JoinedStr(self, n, st, fr, ex):
        return [(Sym(("a", "<fstring>")), st)]

    def e_Name(self, n, st, fr, ex):
        if n.id in st.loc:
            return [(st.loc[n.id], st)]
        return [(self.resolve_global(fr.module, n.id, fr, n), st)]

    def resolve_global(self, module: str, name: str, fr: Frame, n: ast.AST) -> Any:
        mi = self.prog.modules[module]
        if name in mi.classes:
            return ClsV(mi.classes[name].qualname, True)
        if name in mi.functions:
            return FnV(mi.functions[name].qualname, None)
        if name in mi.imports:
            q = mi.imports[name]
            if q in self.prog.classes:
                return ClsV(q, True)
            if q in self.prog.functions:
                return FnV(q, None)
            if q.startswith(self.prog.pkg + "."):
                # value imported from another repo module (alias or global)
                mod, _, nm = q.rpartition(".")
                if mod in self.prog.modules and nm in self.prog.modules[mod].globals_:
                    return self.eval_global_value(mod, nm, fr, n)
            return self.lib.global_value(q, name)
        if name in mi.globals_:
            return self.eval_global_value(module, name, fr, n)
        v = self.lib.builtin(name)
        if v is not None:
            return v
        raise AnalysisError(f"unresolved name {name!r} at {self.site(fr, n)}")

    def eval_global_value(self, module: str, name: str, fr: Frame, n: ast.AST) -> Any:
        node = self.prog.modules[module].globals_[name]
        if isinstance(node, ast.Constant):
            return node.value
        if isinstance(node, (ast.Dict, ast.List, ast.Set, ast.Tuple)):
            # a module-level container literal: its content is what the code sees (sharing between instances is a matter of the
            # syntax-tree rules C11-R1d / C14-R6, the value domain has no aliasing for containers)
            res = self.eval(node, Store(), Frame(None, module, None), [])
            if len(res) == 1:
                return res[0][0]
        if name.isupper() or name.startswith("_LOG") or "LOGGER" in name.upper():
            return Sym(("a", f"${module}.{name}"))
        if isinstance(node, (ast.Name, ast.Attribute)):
            tmp = Store()
            res = self.eval(node, tmp, Frame(None, module, None), [])
            if len(res) == 1:
                return res[0][0]
        return Sym(("a", f"${module}.{name}"))

    def e_Tuple(self, n, st, fr, ex):
        return [(Tup(tuple(vs)), s) for vs, s in self.eval_list(n.elts, st, fr, ex)]

    def e_List(self, n, st, fr, ex):
        return [(Lst(tuple(vs), False), s) for vs, s in self.eval_list(n.elts, st, fr, ex)]

    def e_Dict(self, n, st, fr, ex):
        out = []
        for ks, s in self.eval_list([k for k in n.keys], st, fr, ex):
            for vs, s2 in self.eval_list(n.values, s, fr, ex):
                out.append((Dct(tuple(zip(ks, vs))), s2))
        return out

    def e_IfExp(self, n, st, fr, ex):
        out = []
        for v, s in self.eval(n.test, st, fr, ex):
            for b, s2 in self.truth(v, s, fr, n.test):
                out.extend(self.eval(n.body if b else n.orelse, s2, fr, ex))
        return out

    def e_BoolOp(self, n, st, fr, ex):
        is_and = isinstance(n.op, ast.And)
        cur: list[tuple[Any, Store]] = self.eval(n.values[0], st, fr, ex)
        for nd in n.values[1:]:
            nx = []
            for v, s in cur:
                for b, s2 in self.truth(v, s, fr, nd):
                    if b == is_and:
                        nx.extend(self.eval(nd, s2, fr, ex))
                    else:
                        nx.append((v, s2))
            cur = nx
        return cur

    def e_UnaryOp(self, n, st, fr, ex):
        out = []
        for v, s in self.eval(n.operand, st, fr, ex):
            if isinstance(n.op, ast.Not):
                for b, s2 in self.truth(v, s, fr, n.operand):
                    out.append((not b, s2))
            elif isinstance(n.op, ast.USub):
                r = lin_add(0, v, -1)
                out.append((r if r is not None else app("neg", v), s))
            else:
                raise AnalysisError(f"unsupported unary op at {self.site(fr, n)}")
        return out

    def e_Compare(self, n, st, fr, ex):
        out = []
        for l, s in self.eval(n.left, st, fr, ex):
            cur = [(True, l, s)]
            for op, rn in zip(n.ops, n.comparators):
                nx = []
                for ok, lv, s2 in cur:
                    if not ok:
                        nx.append((False, lv, s2))
                        continue
                    for rv, s3 in self.eval(rn, s2, fr, ex):
                        for b, s4 in self.compare(op, lv, rv, s3, fr, n, ex):
                            nx.append((b, rv, s4))
                cur = nx
            out.extend((b, s2) for b, _, s2 in cur)
        return out

    def e_BinOp(self, n, st, fr, ex):
        out = []
        for a, s in self.eval(n.left, st, fr, ex):
            for b, s2 in self.eval(n.right, s, fr, ex):
                out.extend(self.binop(n.op, a, b, s2, fr, n, ex))
        return out

    def binop(self, op: ast.operator, a: Any, b: Any, st: Store, fr: Frame, n: ast.AST, ex: list) -> list[tuple[Any, Store]]:
        o = type(op).__name__
        if self.track_stale and (_is_stale(a) or _is_stale(b)):
            st = self.stale_use((a, b), "arithmetic", st, self.site(fr, n))
            return [(Sym(("a", "stale-arith")), st)]
        if a is None or b is None:
            ex.append((ExcInfo("TypeError", "type-none", self.site(fr, n), f"arithmetic with None: {norm(n)}"), st))
            return []
        if o in ("Add", "Sub") and is_intish(a) and is_intish(b):
            r = lin_add(a, b, 1 if o == "Add" else -1)
            if r is not None:
                return [(r, st)]
        if isinstance(a, int) and isinstance(b, int) and not isinstance(a, bool) and not isinstance(b, bool):
            try:
                r = {"Add": a + b, "Sub": a - b, "Mult": a * b, "FloorDiv": a // b if b else None,
                     "Mod": a % b if b else None, "Pow": a ** b if abs(b) < 64 else None}.get(o)
            except Exception:  # noqa: BLE001
                r = None
            if r is not None:
                return [(r, st)]
        if o == "Div" and _is_pathish(a):
            return [(app("joinpath", a, b), st)]
        if o == "Add" and isinstance(a, Lst) and isinstance(b, Lst):
            return [(Lst(a.items + b.items, a.more or b.more), st)]
        return [(app(o.lower(), a, b), st)]

    def e_Subscript(self, n, st, fr, ex):
        out = []
        for v, s in self.eval(n.value, st, fr, ex):
            for i, s2 in self.eval(n.slice, s, fr, ex):
                if isinstance(v, (Tup, Lst)) and isinstance(i, int) and -len(v.items) <= i < len(v.items):
                    out.append((v.items[i], s2))
                elif isinstance(v, Sym):
                    out.append((Sym(("idx", v.t, i)), s2))
                elif isinstance(v, Dct):
                    hit = [val for k, val in v.items if k == i]
                    if hit:
                        out.append((hit[0], s2))
                    else:
                        ex.append((ExcInfo("KeyError", "lib", self.site(fr, n), norm(n)), s2))
                elif v is None:
                    ex.append((ExcInfo("TypeError", "none-deref", self.site(fr, n), f"subscript of None: {norm(n)}"), s2))
                else:
                    raise AnalysisError(f"unsupported subscript {v!r}[{i!r}] at {self.site(fr, n)}")
        return out

    def e_Attribute(self, n, st, fr, ex):
        out = []
        for v, s in self.eval(n.value, st, fr, ex):
            out.extend(self.load_attr(v, n.attr, s, fr, n, ex))
        return out

    def load_attr(self, v: Any, name: str, st: Store, fr: Frame, n: ast.AST, ex: list) -> list[tuple[Any, Store]]:
        site = self.site(fr, n)
        if v is None:
            ex.append((ExcInfo("AttributeError", "none-deref", site, f".{name} of None: {norm(n)}"), st))
            return []
        if isinstance(v, Ref):
            obj = st.heap[v.oid]
            cls = obj["$cls"]
            if name in obj:
                val = obj[name]
                if isinstance(val, Lazy) and obj.get("$volatile"):
                    return [(FSym(val.tag, val.dom, v.oid, name), st)]
                if isinstance(val, Lazy):
                    out = []
                    for d, s2 in self.fork_dom(("lazy", val.tag), val.dom, st):
                        s3 = s2.fork()
                        s3.set_field(v.oid, name, d)
                        out.append((d, s3))
                    return out
                return [(val, st)]
            if cls in self.prog.classes:
                if cls in self.lib.summarised:
                    return self.lib.summ_attr(v, cls, name, st, fr, n, ex)
                m = self.prog.find_method(cls, name)
                if m is not None:
                    if m.is_property:
                        return self.call_repo(m, v, [], {}, st, ex, site)
                    if m.is_classmethod:
                        return [(FnV(m.qualname, ClsV(cls, True)), st)]
                    if m.is_staticmethod:
                        return [(FnV(m.qualname, None), st)]
                    return [(FnV(m.qualname, v), st)]
                # class-level attribute / dataclass default not materialised
                for ci in self.prog.mro(cls):
                    if name in ci.class_attrs:
                        return self.eval(ci.class_attrs[name], st, Frame(None, ci.module, ci.qualname), ex)
                ex.append((ExcInfo("AttributeError", "lib", site, f"{cls.split('.')[-1]} has no attribute {name}"), st))
                return []
            return self.lib.obj_attr(v, cls, name, st, fr, n, ex)
        if isinstance(v, ClsV):
            return self.class_attr(v, name, st, fr, n, ex)
        if isinstance(v, Sym):
            if v.t == ("a", "$self_module"):
                raise AnalysisError("module value")
            return [(Sym(("attr", v.t, name)), st)]
        if isinstance(v, E) and v.cls == "$STALE":
            st = self.stale_use((v,), f"dereferenced (.{name})", st, site)
            return [(Sym(("attr", ("a", "stale"), name)), st)]
        if isinstance(v, E):
            return [(Sym(("attr", ("a", repr(v)), name)), st)]
        if isinstance(v, (Lst, Tup, Dct, FreeDict, UnkIter, str, bytes)):
            return [(LibFn(f"{type(v).__name__}.{name}", v), st)]
        if isinstance(v, Holder):
            return self.lib.holder_attr(v, name, st, fr, n, ex)
        if isinstance(v, Pdu):
            return self.lib.pdu_attr(v, name, st, fr, n, ex)
        if isinstance(v, Rec) and v.cls == "$super":
            for ci in self.prog.mro(v.get("cls"))[1:]:
                if name in ci.methods:
                    return [(FnV(ci.methods[name].qualname, v.get("self")), st)]
            raise AnalysisError(f"super().{name} not found at {site}")
        if isinstance(v, Rec):
            got = v.get(name, _MISSING)
            if got is not _MISSING:
                return [(got, st)]
            return [(Sym(("attr", ("a", repr(v)), name)), st)]
        if isinstance(v, (int, bool)):
            return [(Sym(("attr", ("a", repr(v)), name)), st)]
        if isinstance(v, ExcV):
            return [(Sym(("attr", ("a", v.cls), name)), st)]
        raise AnalysisError(f"attribute {name} of {v!r} at {site}")

    def class_attr(self, v: ClsV, name: str, st: Store, fr: Frame, n: ast.AST, ex: list) -> list[tuple[Any, Store]]:
        simple = v.q.split(".")[-1]
        if v.repo:
            ci = self.prog.classes[v.q]
            if ci.is_enum:
                if name in ci.enum_members:
                    return [(E(simple, name), st)]
                raise AnalysisError(f"enum {simple} has no member {name} at {self.site(fr, n)}")
            m = self.prog.find_method(v.q, name)
            if m is not None:
                if m.is_classmethod:
                    return [(FnV(m.qualname, v), st)]
                return [(FnV(m.qualname, None), st)]
            for c2 in self.prog.mro(v.q):
                if name in c2.class_attrs:
                    return self.eval(c2.class_attrs[name], st, Frame(None, c2.module, c2.qualname), ex)
            raise AnalysisError(f"class attribute {simple}.{name} not found at {self.site(fr, n)}")
        if simple in self.prog.lib_enums:
            if name in self.prog.lib_enums[simple]:
                return [(E(simple, name), st)]
            raise AnalysisError(f"library enum {simple} has no member {name} at {self.site(fr, n)}")
        return [(LibFn(f"{simple}.{name}", None), st)]

    # ------------------------------------------------------------------ calls
    def e_Call(self, n, st, fr, ex):
        self.calls_total += 1
        site = self.site(fr, n)
        out: list[tuple[Any, Store]] = []
        # receiver-aware evaluation so that mutating container methods can write back
        if isinstance(n.func, ast.Attribute):
            funcs = []
            for rv, s in self.eval(n.func.value, st, fr, ex):
                for fv, s2 in self.load_attr(rv, n.func.attr, s, fr, n.func, ex):
                    funcs.append((fv, rv, s2))
        else:
            funcs = [(fv, None, s) for fv, s in self.eval(n.func, st, fr, ex)]
        for fv, rv, s in funcs:
            if any(isinstance(a, ast.Starred) for a in n.args) or any(k.arg is None for k in n.keywords):
                raise AnalysisError(f"star-args unsupported at {site}")
            if isinstance(fv, (Sym,)) and _is_logger(fv):
                out.append((None, s))
                continue
            for args, s2 in self.eval_list(list(n.args), s, fr, ex):
                for kvals, s3 in self.eval_list([k.value for k in n.keywords], s2, fr, ex):
                    kwargs = {k.arg: v for k, v in zip(n.keywords, kvals)}
                    out.extend(self.call_value(fv, args, kwargs, s3, fr, n, ex, rv))
        return out

    def call_value(self, fv: Any, args: list, kwargs: dict, st: Store, fr: Frame, n: ast.Call, ex: list, recv: Any = None) -> list[tuple[Any, Store]]:
        site = self.site(fr, n)
        if isinstance(fv, FnV):
            fi = self.prog.functions.get(fv.q)
            if fi is None:
                raise AnalysisError(f"function {fv.q} vanished")
            return self.call_repo(fi, fv.self_, args, kwargs, st, ex, site)
        if isinstance(fv, ClsV):
            if fv.repo:
                return self.construct(fv.q, args, kwargs, st, fr, n, ex)
            return self.lib.construct(fv.q, args, kwargs, st, fr, n, ex)
        if isinstance(fv, ClsV) and not fv.repo and self.track_stale:
            st = self.stale_use(tuple(args) + tuple(kwargs.values()), f"passed to {fv.q.split('.')[-1]}(...)", st, site)
        if isinstance(fv, LibFn):
            self.calls_lib += 1
            if self.track_stale:
                st = self.stale_use(tuple(args) + tuple(kwargs.values()) + ((fv.self_,) if _is_stale(fv.self_) else ()),
                                    f"passed to {fv.name}(...)", st, site)
            res = self.lib.call(fv, args, kwargs, st, fr, n, ex)
            # write back mutated containers
            out = []
            for r in res:
                if len(r) == 3:
                    val, s2, newrecv = r
                    tgt = n.func.value if isinstance(n.func, ast.Attribute) else None
                    if tgt is None:
                        raise AnalysisError(f"container mutation without a receiver expression at {site}")
                    for s3 in self.assign(tgt, newrecv, s2, fr, ex, aug=True):
                        out.append((val, s3))
                else:
                    out.append(r)
            return out
        if isinstance(fv, Sym):
            key = f"{fv!r}"
            self.unresolved_calls[key] = self.unresolved_calls.get(key, 0) + 1
            return [(Sym(("app", "call:" + repr(fv), tuple(args) + tuple(sorted(kwargs.items())))), st)]
        raise AnalysisError(f"call of non-callable {fv!r} at {site}")

    def call_repo(self, fi: FuncInfo, self_: Any, args: list, kwargs: dict, st: Store, ex: list, site: str) -> list[tuple[Any, Store]]:
        self.calls_repo += 1
        if self_ is not None and isinstance(self_, Ref):
            cls = st.cls_of(self_)
            if self.lib.is_env_call(cls, fi, st, self_):
                if self.track_stale:
                    st = self.stale_use(tuple(args) + tuple(kwargs.values()), f"passed to {fi.name}(...)", st, site)
                return self.lib.env_call(self_, cls, fi, args, kwargs, st, ex, site)
        if fi.is_abstract:
            raise AnalysisError(f"call of abstract method {fi.qualname} on a non-environment receiver at {site}")
        depth = self.stack.count(fi.qualname)
        if depth > self.max_rec:
            self.assume(f"recursion into {fi.qualname} cut at depth {depth}")
            return []
        a = fi.node.args
        params = [x.arg for x in a.posonlyargs + a.args]
        bound: dict[str, Any] = {}
        vals = list(args)
        if not fi.is_staticmethod and fi.cls is not None:
            vals = [self_] + vals
        if len(vals) > len(params):
            raise AnalysisError(f"too many arguments for {fi.qualname} at {site}")
        for p, v in zip(params, vals):
            bound[p] = v
        for k, v in kwargs.items():
            if k not in params and k not in [x.arg for x in a.kwonlyargs]:
                raise AnalysisError(f"unexpected keyword {k} for {fi.qualname} at {site}")
            bound[k] = v
        defaults = a.defaults
        fr2 = Frame(fi, fi.module, fi.cls)
        for p, d in zip(params[len(params) - len(defaults):], defaults):
            if p not in bound:
                r = self.eval(d, Store(), fr2, [])
                bound[p] = r[0][0]
        for p, d in zip(a.kwonlyargs, a.kw_defaults):
            if p.arg not in bound and d is not None:
                bound[p.arg] = self.eval(d, Store(), fr2, [])[0][0]
        missing = [p for p in params if p not in bound]
        if missing:
            raise AnalysisError(f"missing arguments {missing} for {fi.qualname} at {site}")
        saved = st.loc
        s0 = st.fork()
        s0.loc = bound
        self.stack.append(fi.qualname)
        self.funcs_entered.add(fi.qualname)
        inner_ex: list = []
        try:
            flow = self.exec_block(fi.node.body, [s0], fr2, inner_ex)
        finally:
            self.stack.pop()
        out = []
        for s in flow.normal:
            s.loc = saved
            s._key = None
            out.append((None, s))
        for v, s in flow.rets:
            s.loc = saved
            s._key = None
            out.append((v, s))
        for ei, s in inner_ex:
            s.loc = saved
            s._key = None
            if not ei.func:
                ei = ei._replace(func=fi.qualname)
            ex.append((ei, s))
        return dedup_pairs(out)

    def construct(self, q: str, args: list, kwargs: dict, st: Store, fr: Frame, n: ast.AST, ex: list) -> list[tuple[Any, Store]]:
        site = self.site(fr, n)
        ci = self.prog.classes[q]
        if self.is_exc_class(q):
            return [(ExcV(ci.name, tuple(args)), st)]
        if ci.is_enum:
            return [(app(ci.name, *args), st)]
        if q in self.lib.summarised:
            return self.lib.summ_construct(q, st, site)
        init = self.prog.find_method(q, "__init__")
        if init is not None:
            s2 = st.fork()
            ref = s2.alloc(q, {})
            self.event(s2, "alloc", ci.name, (ref.oid,), site)
            out = []
            for _, s3 in self.call_repo(init, ref, args, kwargs, s2, ex, site):
                out.append((ref, s3))
            return out
        if any(c.is_dataclass for c in self.prog.mro(q)):
            return self.construct_dataclass(ci, args, kwargs, st, fr, n, ex)
        s2 = st.fork()
        ref = s2.alloc(q, {})
        self.event(s2, "alloc", ci.name, (ref.oid,), site)
        return [(ref, s2)]

    def construct_dataclass(self, ci: ClassInfo, args: list, kwargs: dict, st: Store, fr: Frame, n: ast.AST, ex: list) -> list[tuple[Any, Store]]:
        site = self.site(fr, n)
        fields = self.prog.all_fields(ci.qualname)
        names = [k for k, (a, _, _) in fields.items() if not (a is not None and "ClassVar" in ast.unparse(a))]
        if len(args) > len(names):
            raise AnalysisError(f"too many arguments for dataclass {ci.name} at {site}")
        given: dict[str, Any] = dict(zip(names, args))
        for k, v in kwargs.items():
            if k not in names:
                raise AnalysisError(f"unexpected field {k} for dataclass {ci.name} at {site}")
            given[k] = v
        cur: list[tuple[dict, Store]] = [({}, st)]
        for k in names:
            _, default, owner = fields[k]
            nx = []
            for vals, s in cur:
                if k in given:
                    nx.append(({**vals, k: given[k]}, s))
                    continue
                if default is None:
                    raise AnalysisError(f"missing field {k} for dataclass {ci.name} at {site}")
                fr2 = Frame(None, owner, ci.qualname)
                if isinstance(default, ast.Call) and ast.unparse(default.func) in ("field", "dataclasses.field"):
                    kw = {x.arg: x.value for x in default.keywords}
                    if "default_factory" in kw:
                        for fv, s2 in self.eval(kw["default_factory"], s, fr2, ex):
                            for v, s3 in self.call_value(fv, [], {}, s2, fr2, default, ex):
                                nx.append(({**vals, k: v}, s3))
                    elif "default" in kw:
                        for v, s2 in self.eval(kw["default"], s, fr2, ex):
                            nx.append(({**vals, k: v}, s2))
                    else:
                        raise AnalysisError(f"field() without default for {ci.name}.{k} at {site}")
                else:
                    for v, s2 in self.eval(default, s, fr2, ex):
                        nx.append(({**vals, k: v}, s2))
            cur = nx
        out = []
        for vals, s in cur:
            s2 = s.fork()
            ref = s2.alloc(ci.qualname, vals)
            self.event(s2, "alloc", ci.name, (ref.oid,), site)
            post = self.prog.find_method(ci.qualname, "__post_init__")
            if post is not None:
                for _, s3 in self.call_repo(post, ref, [], {}, s2, ex, site):
                    out.append((ref, s3))
            else:
                out.append((ref, s2))
        return out


_MISSING = object()


def _as_load(t: ast.expr) -> ast.expr:
    if isinstance(t, ast.Name):
        return ast.copy_location(ast.Name(id=t.id, ctx=ast.Load()), t)
    if isinstance(t, ast.Attribute):
        return ast.copy_location(ast.Attribute(value=t.value, attr=t.attr, ctx=ast.Load()), t)
    raise AnalysisError("unsupported augmented-assignment target")


def is_intish(v: Any) -> bool:
    if isinstance(v, bool):
        return False
    if isinstance(v, int):
        return True
    if isinstance(v, Sym):
        return True
    return False


def _is_stale(v: Any) -> bool:
    return isinstance(v, E) and v.cls == "$STALE"


def _finite(v: Any) -> bool:
    """values of the finite tracked domains (kept exactly in every mode)"""
    if v is None or isinstance(v, (bool, E, Ref, Lazy, str, bytes, Dct, FreeDict)):
        return True
    if isinstance(v, int):
        return v == 0
    if isinstance(v, Lst):
        return not v.more and all(isinstance(x, Holder) for x in v.items)
    return False


def _concrete(v: Any) -> bool:
    if isinstance(v, (Sym, UnkIter, Lazy)):
        return False
    if isinstance(v, (Tup, Lst)):
        return all(_concrete(x) for x in v.items) and not getattr(v, "more", False)
    if isinstance(v, Rec):
        return all(_concrete(x) for _, x in v.fields)
    if isinstance(v, (Pdu, Holder)):
        return False
    return True


def _is_pathish(v: Any) -> bool:
    return isinstance(v, Sym) and (("Path" in repr(v)) or ("path" in repr(v)) or ("file" in repr(v)))


def _is_logger(v: Sym) -> bool:
    t = v.t
    while t and t[0] == "attr":
        t = t[1]
    return bool(t) and t[0] == "a" and "LOGGER" in str(t[1]).upper()

"""L0 - program model of /repo/src/cfdppy: modules, imports, classes (MRO inside the repo),
functions/methods/properties, dataclass fields, enum members (repo and spacepackets).

Nothing in here imports or executes the analysed code; everything is read with `ast`."""
from __future__ import annotations

import ast
import hashlib
import os
import sys
from dataclasses import dataclass, field
from pathlib import Path

REPO = Path(os.environ.get("CFDPSA_REPO", "/repo"))
PKG_ROOT = REPO / "src"
PKG = "cfdppy"


class AnalysisError(Exception):
    """The analyser cannot do its job (unsupported syntax, vanished anchor, ...): exit code 2."""


def find_spacepackets() -> Path | None:
    for base in ("/venv/lib/python3.12/site-packages",):
        p = Path(base) / "spacepackets"
        if p.is_dir():
            return p
    for p in sys.path:
        q = Path(p) / "spacepackets"
        if q.is_dir():
            return q
    return None


@dataclass
class FuncInfo:
    qualname: str  # module.Class.name or module.name
    module: str
    cls: str | None  # qualified class name
    name: str
    node: ast.FunctionDef
    decorators: list[str]
    is_property: bool = False
    is_setter: bool = False
    is_classmethod: bool = False
    is_staticmethod: bool = False
    is_abstract: bool = False

    @property
    def params(self) -> list[str]:
        a = self.node.args
        return [x.arg for x in a.posonlyargs + a.args]

    @property
    def file(self) -> str:
        return MODEL_FILES.get(self.module, self.module)


MODEL_FILES: dict[str, str] = {}


@dataclass
class ClassInfo:
    qualname: str
    module: str
    name: str
    node: ast.ClassDef
    bases: list[str]  # qualified where resolvable
    is_dataclass: bool = False
    is_enum: bool = False
    methods: dict[str, FuncInfo] = field(default_factory=dict)
    setters: dict[str, FuncInfo] = field(default_factory=dict)
    # dataclass fields / annotated class attributes in source order: name -> (annotation, default expr or None)
    fields: dict[str, tuple[ast.expr | None, ast.expr | None]] = field(default_factory=dict)
    class_attrs: dict[str, ast.expr] = field(default_factory=dict)  # un-annotated class-level assigns
    enum_members: list[str] = field(default_factory=list)


@dataclass
class ModuleInfo:
    name: str
    path: Path
    tree: ast.Module
    source: str
    imports: dict[str, str] = field(default_factory=dict)  # local name -> qualified name
    functions: dict[str, FuncInfo] = field(default_factory=dict)
    classes: dict[str, ClassInfo] = field(default_factory=dict)
    globals_: dict[str, ast.expr] = field(default_factory=dict)


def _decorator_name(d: ast.expr) -> str:
    if isinstance(d, ast.Call):
        d = d.func
    return ast.unparse(d)


class Program:
    def __init__(self, root: Path = PKG_ROOT, pkg: str = PKG):
        self.root = root
        self.pkg = pkg
        self.modules: dict[str, ModuleInfo] = {}
        self.classes: dict[str, ClassInfo] = {}
        self.functions: dict[str, FuncInfo] = {}
        self.lib_enums: dict[str, list[str]] = {}  # simple class name -> member names
        self.lib_enum_alias: dict[str, dict[str, str]] = {}
        self.lib_int_enums: set[str] = set()
        self.lib_classes: set[str] = set()
        self.spacepackets_version = "?"
        self.role_notes: list[str] = []
        self.digest = ""
        self._load()
        self._load_lib_enums()

    # ------------------------------------------------------------------ loading
    def _load(self) -> None:
        pkgdir = self.root / self.pkg
        if not pkgdir.is_dir():
            raise AnalysisError(f"package directory {pkgdir} not found")
        h = hashlib.sha256()
        for path in sorted(pkgdir.rglob("*.py")):
            rel = path.relative_to(self.root).with_suffix("")
            parts = list(rel.parts)
            if parts[-1] == "__init__":
                parts = parts[:-1]
            modname = ".".join(parts)
            src = path.read_text()
            h.update(modname.encode())
            h.update(src.encode())
            try:
                tree = ast.parse(src, filename=str(path))
            except SyntaxError as e:  # the tree must at least parse
                raise AnalysisError(f"cannot parse {path}: {e}") from e
            mi = ModuleInfo(modname, path, tree, src)
            MODEL_FILES[modname] = str(path)
            self.modules[modname] = mi
        self.digest = h.hexdigest()[:16]
        # private attributes/classes are recognised by structure and renamed (in the parsed trees only) to the
        # canonical names used by the rule tables, so that private renames in the analysed tree do not matter
        from .roles import canonicalise
        trees = {m: mi.tree for m, mi in self.modules.items()}
        self.role_notes = canonicalise(trees)
        for m, t in trees.items():
            self.modules[m].tree = t
        for mi in self.modules.values():
            self._index_module(mi)
        # resolve re-exports through package __init__ (from cfdppy import CfdpUserBase)
        for mi in self.modules.values():
            for local, q in list(mi.imports.items()):
                mi.imports[local] = self.resolve_export(q)
        for ci in self.classes.values():
            ci.bases = [self.resolve_export(b) for b in ci.bases]
            for b in ci.bases:
                if b.split(".")[-1] in ("Enum", "IntEnum", "IntFlag", "Flag"):
                    ci.is_enum = True
            if ci.is_enum:
                ci.enum_members = [k for k in ci.class_attrs]

    def resolve_export(self, q: str, depth: int = 0) -> str:
        """cfdppy.CfdpUserBase -> cfdppy.user.CfdpUserBase (follow `from x import y` in packages)."""
        if depth > 6:
            return q
        if q in self.classes or q in self.functions:
            return q
        mod, _, name = q.rpartition(".")
        mi = self.modules.get(mod)
        if mi is not None and name in mi.imports and mi.imports[name] != q:
            return self.resolve_export(mi.imports[name], depth + 1)
        return q

    def _index_module(self, mi: ModuleInfo) -> None:
        pkg_parts = mi.name.split(".")
        is_pkg = mi.path.name == "__init__.py"

        def visit_imports(body: list[ast.stmt]) -> None:
            for st in body:
                if isinstance(st, ast.Import):
                    for a in st.names:
                        mi.imports[a.asname or a.name.split(".")[0]] = (
                            a.name if a.asname else a.name.split(".")[0]
                        )
                elif isinstance(st, ast.ImportFrom):
                    if st.level:
                        base = pkg_parts if is_pkg else pkg_parts[:-1]
                        base = base[: len(base) - (st.level - 1)]
                        mod = ".".join(base + ([st.module] if st.module else []))
                    else:
                        mod = st.module or ""
                    for a in st.names:
                        mi.imports[a.asname or a.name] = f"{mod}.{a.name}"
                elif isinstance(st, ast.If):
                    # `if TYPE_CHECKING:` imports count for annotations
                    visit_imports(st.body)
                    visit_imports(st.orelse)

        visit_imports(mi.tree.body)
        for st in mi.tree.body:
            if isinstance(st, ast.FunctionDef):
                fi = self._mk_func(mi, None, st)
                mi.functions[st.name] = fi
                self.functions[fi.qualname] = fi
            elif isinstance(st, ast.ClassDef):
                self._index_class(mi, st)
            elif isinstance(st, ast.Assign) and len(st.targets) == 1 and isinstance(st.targets[0], ast.Name):
                mi.globals_[st.targets[0].id] = st.value
            elif isinstance(st, ast.AnnAssign) and isinstance(st.target, ast.Name) and st.value is not None:
                mi.globals_[st.target.id] = st.value
        # module-level aliases of classes (HostFilestore = NativeFilestore)
        for name, val in mi.globals_.items():
            if isinstance(val, ast.Name) and val.id in mi.classes:
                mi.imports[name] = mi.classes[val.id].qualname
            elif isinstance(val, ast.Name) and val.id in mi.imports:
                mi.imports[name] = mi.imports[val.id]

    def _mk_func(self, mi: ModuleInfo, ci: ClassInfo | None, node: ast.FunctionDef) -> FuncInfo:
        decs = [_decorator_name(d) for d in node.decorator_list]
        q = f"{ci.qualname}.{node.name}" if ci else f"{mi.name}.{node.name}"
        fi = FuncInfo(q, mi.name, ci.qualname if ci else None, node.name, node, decs)
        for d in decs:
            if d == "property":
                fi.is_property = True
            elif d.endswith(".setter"):
                fi.is_setter = True
            elif d == "classmethod":
                fi.is_classmethod = True
            elif d == "staticmethod":
                fi.is_staticmethod = True
            elif d in ("abc.abstractmethod", "abstractmethod"):
                fi.is_abstract = True
        return fi

    def _index_class(self, mi: ModuleInfo, node: ast.ClassDef) -> None:
        q = f"{mi.name}.{node.name}"
        bases = []
        for b in node.bases:
            s = ast.unparse(b)
            head = s.split(".")[0]
            if head in mi.imports:
                s = mi.imports[head] + s[len(head):]
            elif head in mi.classes:
                s = mi.classes[head].qualname + s[len(head):]
            bases.append(s)
        ci = ClassInfo(q, mi.name, node.name, node, bases)
        ci.is_dataclass = any(_decorator_name(d) in ("dataclass", "dataclasses.dataclass") for d in node.decorator_list)
        for st in node.body:
            if isinstance(st, ast.FunctionDef):
                fi = self._mk_func(mi, ci, st)
                if fi.is_setter:
                    ci.setters[st.name] = fi
                    self.functions[fi.qualname + ".setter"] = fi
                else:
                    ci.methods[st.name] = fi
                    self.functions[fi.qualname] = fi
            elif isinstance(st, ast.AnnAssign) and isinstance(st.target, ast.Name):
                ci.fields[st.target.id] = (st.annotation, st.value)
            elif isinstance(st, ast.Assign):
                for t in st.targets:
                    if isinstance(t, ast.Name):
                        ci.class_attrs[t.id] = st.value
        mi.classes[node.name] = ci
        self.classes[q] = ci

    def _load_lib_enums(self) -> None:
        sp = find_spacepackets()
        if sp is None:
            raise AnalysisError("spacepackets sources not found (needed for enum member lists)")
        ver = sp / "version.py"
        try:
            for n in ast.walk(ast.parse((sp / "__init__.py").read_text())):
                if isinstance(n, ast.Assign) and any(isinstance(t, ast.Name) and t.id == "__version__" for t in n.targets):
                    if isinstance(n.value, ast.Constant):
                        self.spacepackets_version = str(n.value.value)
        except OSError:
            pass
        if self.spacepackets_version == "?":
            for d in sp.parent.glob("spacepackets-*.dist-info"):
                self.spacepackets_version = d.name.split("-")[1].replace(".dist", "")
        _ = ver
        for path in sorted(sp.rglob("*.py")):
            try:
                tree = ast.parse(path.read_text())
            except (SyntaxError, OSError):
                continue
            for st in tree.body:
                if not isinstance(st, ast.ClassDef):
                    continue
                self.lib_classes.add(st.name)
                if any(ast.unparse(b).split(".")[-1] in ("Enum", "IntEnum") for b in st.bases):
                    if any(ast.unparse(b).split(".")[-1] == "IntEnum" for b in st.bases):
                        self.lib_int_enums.add(st.name)
                    members = []
                    values: dict[str, str] = {}
                    for s in st.body:
                        if isinstance(s, ast.Assign) and len(s.targets) == 1 and isinstance(s.targets[0], ast.Name):
                            members.append(s.targets[0].id)
                            values[s.targets[0].id] = ast.unparse(s.value)
                    self.lib_enums.setdefault(st.name, members)
                    self.lib_enum_alias.setdefault(st.name, values)

    # ------------------------------------------------------------------ queries
    def compared_members(self, cls: str) -> set[str]:
        """members of the (library) enum `cls` that the handler modules compare against literally (==, !=, in, match):
        the abstraction of that enum must keep exactly these apart; every other member may be lumped together"""
        cache = self.__dict__.setdefault("_cmp_members", {})
        if cls not in cache:
            found: set[str] = set()
            for m, mi in self.modules.items():
                if not (m.startswith(f"{self.pkg}.handler") or m == f"{self.pkg}.mib"):
                    continue
                for n in ast.walk(mi.tree):
                    operands: list[ast.AST] = []
                    if isinstance(n, ast.Compare):
                        operands = [n.left] + list(n.comparators)
                    elif isinstance(n, ast.Match):
                        operands = [c.pattern for c in n.cases]
                    for o in operands:
                        for y in ast.walk(o):
                            if isinstance(y, ast.Attribute) and isinstance(y.value, ast.Name) and y.value.id == cls:
                                found.add(y.attr)
            cache[cls] = found
        return cache[cls]

    def enum_is_falsy(self, cls: str, name: str) -> bool:
        """IntEnum members with value 0 are falsy (e.g. TransmissionMode.ACKNOWLEDGED)"""
        val = None
        if cls in self.lib_int_enums:
            val = self.lib_enum_alias.get(cls, {}).get(name)
        else:
            ci = self.class_by_simple(cls)
            if ci is not None and ci.is_enum and any(b.split(".")[-1] in ("IntEnum", "IntFlag") for b in ci.bases) and name in ci.class_attrs:
                val = ast.unparse(ci.class_attrs[name])
        if val is None:
            return False
        try:
            return int(ast.literal_eval(val)) == 0
        except (ValueError, SyntaxError):
            return False

    def mro(self, cls: str) -> list[ClassInfo]:
        out: list[ClassInfo] = []
        seen = set()

        def rec(q: str) -> None:
            ci = self.classes.get(q)
            if ci is None or q in seen:
                return
            seen.add(q)
            out.append(ci)
            for b in ci.bases:
                rec(b)

        rec(cls)
        return out

    def find_method(self, cls: str, name: str) -> FuncInfo | None:
        for ci in self.mro(cls):
            m = ci.methods.get(mangle(ci.name, name) if False else name)
            if m is not None:
                return m
        return None

    def find_setter(self, cls: str, name: str) -> FuncInfo | None:
        for ci in self.mro(cls):
            m = ci.setters.get(name)
            if m is not None:
                return m
        return None

    def all_fields(self, cls: str) -> dict[str, tuple[ast.expr | None, ast.expr | None, str]]:
        """dataclass fields in MRO order (base first), name -> (annotation, default, owner module)."""
        out: dict[str, tuple[ast.expr | None, ast.expr | None, str]] = {}
        for ci in reversed(self.mro(cls)):
            if not ci.is_dataclass:
                continue
            for k, (a, d) in ci.fields.items():
                out[k] = (a, d, ci.module)
        return out

    def is_subclass(self, cls: str, base_simple: str) -> bool:
        for ci in self.mro(cls):
            if ci.name == base_simple:
                return True
            for b in ci.bases:
                if b.split(".")[-1] == base_simple:
                    return True
        return False

    def class_by_simple(self, name: str) -> ClassInfo | None:
        c = [ci for ci in self.classes.values() if ci.name == name]
        return c[0] if len(c) == 1 else None

    def func(self, qualname: str) -> FuncInfo:
        f = self.functions.get(qualname)
        if f is None:
            raise AnalysisError(f"anchor function {qualname} not found in the tree")
        return f

    def iter_functions(self):
        yield from self.functions.values()


def mangle(clsname: str, name: str) -> str:
    if name.startswith("__") and not name.endswith("__"):
        return f"_{clsname.lstrip('_')}{name}"
    return name


def unmangle_candidates(name: str) -> list[str]:
    """_DestHandler__idle_fsm -> __idle_fsm (source name)"""
    out = [name]
    if name.startswith("_") and "__" in name[1:]:
        idx = name.index("__", 1)
        out.append(name[idx:])
    return out


def loc(fi_or_mod, node: ast.AST) -> str:
    f = fi_or_mod.file if isinstance(fi_or_mod, FuncInfo) else str(fi_or_mod)
    try:
        f = str(Path(f).relative_to(REPO))
    except ValueError:
        pass
    return f"{f}:{getattr(node, 'lineno', 0)}"


def norm(node: ast.AST) -> str:
    """normalised statement text (formatting-independent) used in finding keys"""
    if isinstance(node, (ast.If, ast.While)):
        return ("if " if isinstance(node, ast.If) else "while ") + ast.unparse(node.test)
    if isinstance(node, ast.For):
        return f"for {ast.unparse(node.target)} in {ast.unparse(node.iter)}"
    s = ast.unparse(node)
    return " ".join(s.split())

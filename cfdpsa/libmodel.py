"""Library and environment model (trusted base; checked for existence on every run).

* spacepackets PDU classes, PduHolder, PduConfig, Countdown, FinishedParams, small records
* builtins and container methods used by the analysed code
* *environment* objects the handlers are given (user, virtual filestore, providers, remote
  configuration table): their methods are opaque events whose results are derived from the
  return annotation and whose possible exceptions are read from the interface docstrings
* LostSegmentTracker is *summarised* (emptiness only) inside the handler analysis; its own
  behaviour is the subject of C18."""
from __future__ import annotations

import ast
import re
from typing import Any

from .interp import BUILTIN_EXC, ExcInfo, Frame, Interp, Store
from .model import AnalysisError, FuncInfo, Program, find_spacepackets
from .values import (
    E, ClsV, Dct, ExcV, FnV, FreeDict, Holder, Lazy, LibFn, Lst, Pdu, Rec, Ref, Sym, Tup, UnkIter,
    app, atom, lin_add,
)

PDU_CLASSES = {
    "NakPdu": "NAK", "AckPdu": "ACK", "FinishedPdu": "FINISHED", "EofPdu": "EOF",
    "MetadataPdu": "METADATA", "FileDataPdu": "FD", "KeepAlivePdu": "KEEP_ALIVE", "PromptPdu": "PROMPT",
}
KIND_DIRECTIVE = {
    "METADATA": "METADATA_PDU", "EOF": "EOF_PDU", "FINISHED": "FINISHED_PDU", "NAK": "NAK_PDU",
    "KEEP_ALIVE": "KEEP_ALIVE_PDU", "PROMPT": "PROMPT_PDU", "ACK_EOF": "ACK_PDU", "ACK_FIN": "ACK_PDU",
}
ALL_KINDS = ["FD", "METADATA", "EOF", "PROMPT", "ACK_FIN", "FINISHED", "NAK", "KEEP_ALIVE", "ACK_EOF"]
CAST = {
    "to_file_data_pdu": ("FD",), "to_metadata_pdu": ("METADATA",), "to_eof_pdu": ("EOF",),
    "to_finished_pdu": ("FINISHED",), "to_nak_pdu": ("NAK",), "to_ack_pdu": ("ACK_EOF", "ACK_FIN"),
    "to_keep_alive_pdu": ("KEEP_ALIVE",), "to_prompt_pdu": ("PROMPT",),
}
MUTABLE_LIB = {"FinishedParams", "PduConfig"}
ENV_CLASSES = {"CfdpUserBase": "user", "VirtualFilestore": "vfs", "CheckTimerProvider": "check_timer_provider",
               "RemoteEntityCfgTable": "remote_cfg_table"}
VFS_MUTATORS = {"write_data", "create_file", "delete_file", "truncate_file", "rename_file", "replace_file",
                "create_directory", "remove_directory", "list_directory"}
TRACKER_METHODS = {"reset", "add_lost_segment", "remove_lost_segment", "coalesce_lost_segments"}


class LibModel:
    def __init__(self, prog: Program) -> None:
        self.prog = prog
        self.ip: Interp = None  # type: ignore[assignment]
        self.summarised: dict[str, str] = {}
        self.singletons: dict[str, int] = {}
        self._sig_cache: dict[str, list[tuple[str, ast.expr | None]] | None] = {}
        self._lib_trees: dict[str, ast.ClassDef] = {}
        self.used_lib_names: set[str] = set()
        self.fresh_timers_running = True
        self._index_lib()
        tr = prog.class_by_simple("LostSegmentTracker")
        if tr is not None:
            self.summarised[tr.qualname] = "tracker"
            missing = TRACKER_METHODS - set(tr.methods)
            if missing:
                raise AnalysisError(f"LostSegmentTracker summary: methods {sorted(missing)} vanished")
        self.tracker_raises: dict[str, list[str]] = {}
        if tr is not None:
            for m, fi in tr.methods.items():
                self.tracker_raises[m] = sorted({
                    ast.unparse(r.exc.func if isinstance(r.exc, ast.Call) else r.exc).split(".")[-1]
                    for r in ast.walk(fi.node) if isinstance(r, ast.Raise) and r.exc is not None
                })

    def _index_lib(self) -> None:
        sp = find_spacepackets()
        if sp is None:
            raise AnalysisError("spacepackets not found")
        for path in sorted(sp.rglob("*.py")):
            try:
                tree = ast.parse(path.read_text())
            except (SyntaxError, OSError):
                continue
            for st in tree.body:
                if isinstance(st, ast.ClassDef):
                    self._lib_trees.setdefault(st.name, st)
        for need in list(PDU_CLASSES) + ["PduHolder", "PduConfig", "FinishedParams", "Countdown"]:
            if need not in self._lib_trees:
                raise AnalysisError(f"library model: class {need} not found in spacepackets")
        for m in CAST:
            if not any(isinstance(x, ast.FunctionDef) and x.name == m for x in self._lib_trees["PduHolder"].body):
                raise AnalysisError(f"library model: PduHolder.{m} not found")

    def lib_signature(self, simple: str) -> list[tuple[str, ast.expr | None]] | None:
        if simple in self._sig_cache:
            return self._sig_cache[simple]
        node = self._lib_trees.get(simple)
        sig = None
        if node is not None:
            init = next((x for x in node.body if isinstance(x, ast.FunctionDef) and x.name == "__init__"), None)
            if init is not None:
                a = init.args
                params = [x.arg for x in a.posonlyargs + a.args][1:]
                defaults: list[ast.expr | None] = [None] * (len(params) - len(a.defaults)) + list(a.defaults)
                sig = list(zip(params, defaults))
                for x, d in zip(a.kwonlyargs, a.kw_defaults):
                    sig.append((x.arg, d))
            else:
                fields = [(x.target.id, x.value) for x in node.body if isinstance(x, ast.AnnAssign) and isinstance(x.target, ast.Name)]
                if fields:
                    sig = fields
        self._sig_cache[simple] = sig
        return sig

    # ------------------------------------------------------------------ names
    def global_value(self, q: str, name: str) -> Any:
        simple = q.split(".")[-1]
        self.used_lib_names.add(q)
        if simple == "TYPE_CHECKING":
            return False
        if simple in self.prog.lib_enums or simple in self._lib_trees or simple in ("Path", "deque", "ABC", "PredefinedCrc", "BinaryIO"):
            return ClsV(q, False)
        if simple in BUILTIN_EXC:
            return ClsV(simple, False)
        if simple and simple[0].isupper() and not simple.isupper():
            return ClsV(q, False)
        if simple.isupper():
            return Sym(("a", f"${simple}"))
        if q.split(".")[0] in ("logging", "os", "shutil", "platform", "struct", "abc", "enum"):
            return Sym(("a", f"$module:{q}"))
        return LibFn(simple, None)

    def builtin(self, name: str) -> Any:
        if name in ("len", "max", "min", "pow", "isinstance", "list", "dict", "sorted", "iter", "next", "print",
                    "range", "str", "int", "bool", "abs", "tuple", "bytes", "repr", "open", "super", "getattr",
                    "setattr", "eval", "exec", "__import__"):
            return LibFn(name, None)
        if name in BUILTIN_EXC:
            return ClsV(name, False)
        return None

    # ------------------------------------------------------------------ constructors
    def bind_sig(self, simple: str, args: list, kwargs: dict, site: str) -> dict[str, Any]:
        sig = self.lib_signature(simple)
        if sig is None:
            out = {f"a{i}": v for i, v in enumerate(args)}
            out.update(kwargs)
            return out
        names = [n for n, _ in sig]
        if len(args) > len(names):
            raise AnalysisError(f"too many arguments for library class {simple} at {site}")
        out = dict(zip(names, args))
        for k, v in kwargs.items():
            if k not in names:
                raise AnalysisError(f"library class {simple} has no parameter {k} at {site}")
            out[k] = v
        for n, d in sig:
            if n not in out:
                if d is None:
                    raise AnalysisError(f"library class {simple}: missing argument {n} at {site}")
                out[n] = self._const_default(d)
        return out

    def _const_default(self, d: ast.expr) -> Any:
        if isinstance(d, ast.Constant):
            return d.value
        if isinstance(d, ast.Attribute) and isinstance(d.value, ast.Name) and d.value.id in self.prog.lib_enums:
            return E(d.value.id, d.attr)
        if isinstance(d, ast.Call) and ast.unparse(d.func) in ("field", "dataclasses.field"):
            return Lst((), False)
        return Sym(("a", "default:" + ast.unparse(d)))

    def construct(self, q: str, args: list, kwargs: dict, st: Store, fr: Frame, n: ast.AST, ex: list) -> list[tuple[Any, Store]]:
        ip = self.ip
        site = ip.site(fr, n)
        simple = q.split(".")[-1]
        if simple in BUILTIN_EXC:
            return [(ExcV(simple, tuple(args)), st)]
        if simple in PDU_CLASSES:
            b = self.bind_sig(simple, args, kwargs, site)
            kind = PDU_CLASSES[simple]
            if kind == "ACK":
                d = b.get("directive_code_of_acked_pdu")
                if d == E("DirectiveType", "EOF_PDU"):
                    kind = "ACK_EOF"
                elif d == E("DirectiveType", "FINISHED_PDU"):
                    kind = "ACK_FIN"
                else:
                    ex.append((ExcInfo("ValueError", "lib", site, "AckPdu of a directive that cannot be acknowledged"), st))
                    return []
            # flatten a params record so that rules see the PDU's fields directly
            flat = dict(b)
            p = b.get("params")
            if isinstance(p, Rec):
                for k, v in p.fields:
                    flat.setdefault(k, v)
            elif isinstance(p, Ref):
                flat["params_fields"] = tuple(sorted((k, v) for k, v in st.heap[p.oid].items() if not k.startswith("$")))
            pdu = Pdu(kind, tuple(sorted(flat.items(), key=lambda kv: kv[0])), site)
            s2 = st.fork()
            ip.event(s2, "pdu", kind, (pdu,), site)
            return [(pdu, s2)]
        if simple == "PduHolder":
            return [(Holder(args[0] if args else kwargs.get("pdu")), st)]
        if simple == "deque":
            return [(Lst((), False), st)]
        if simple == "Path":
            return [(app("Path", *args), st)]
        if simple in MUTABLE_LIB:
            b = self.bind_sig(simple, args, kwargs, site)
            s2 = st.fork()
            ref = s2.alloc(simple, b)
            ip.event(s2, "alloc", simple, (ref.oid,), site)
            return [(ref, s2)]
        if simple == "Countdown":
            s2 = st.fork()
            ref = s2.alloc("Countdown", {"$epoch": 0})
            return [(ref, s2)]
        if simple in self.prog.lib_enums:
            return [(app(simple, *args), st)]
        b = self.bind_sig(simple, args, kwargs, site)
        return [(Rec(simple, tuple(sorted(b.items()))), st)]

    # ------------------------------------------------------------------ calls
    def call(self, fv: LibFn, args: list, kwargs: dict, st: Store, fr: Frame, n: ast.AST, ex: list) -> list:
        ip = self.ip
        site = ip.site(fr, n)
        name = fv.name
        recv = fv.self_
        if name == "len":
            v = args[0]
            if isinstance(v, (Tup, Dct)) or (isinstance(v, Lst) and not v.more):
                return [(len(v.items), st)]
            if isinstance(v, (str, bytes)):
                return [(len(v), st)]
            if v is None:
                ex.append((ExcInfo("TypeError", "none-deref", site, "len(None)"), st))
                return []
            r = app("len", v)
            if isinstance(v, Lst):
                s2 = st.fork()
                s2.set_fact(((r.t, 1),), (len(v.items), None))
                return [(r, s2)]
            return [(r, st)]
        if name in ("max", "min"):
            if all(isinstance(a, int) and not isinstance(a, bool) for a in args):
                return [((max if name == "max" else min)(args), st)]
            if any(a is None for a in args):
                ex.append((ExcInfo("TypeError", "type-none", site, f"{name}() with None"), st))
                return []
            return [(app(name, *sorted(args, key=repr)), st)]
        if name == "pow":
            if all(isinstance(a, int) for a in args):
                return [(pow(*args), st)]
            return [(app("pow", *args), st)]
        if name == "isinstance":
            return [(Sym(("a", "isinstance(...)")), st)]
        if name in ("print", "repr", "str", "int", "bool", "abs", "bytes", "tuple"):
            if name == "print":
                return [(None, st)]
            return [(app(name, *args), st)]
        if name == "super":
            if args or fr.cls is None or "self" not in st.loc:
                raise AnalysisError(f"unsupported super() form at {site}")
            return [(Rec("$super", (("cls", fr.cls), ("self", st.loc["self"]))), st)]
        if name == "open":
            s2 = st.fork()
            ip.event(s2, "hostio", "open", tuple(args), site)
            return [(Sym(("a", f"hostfile@{site}")), s2)]
        if name in ("getattr", "setattr", "eval", "exec", "__import__"):
            raise AnalysisError(f"{name}() reached by the interpreter at {site}")
        if name == "list":
            if not args:
                return [(Lst((), False), st)]
            v = args[0]
            if isinstance(v, Lst):
                return [(v, st)]
            if isinstance(v, Tup):
                return [(Lst(v.items, False), st)]
            return [(v, st)]
        if name == "dict":
            if not args:
                return [(Dct(()), st)]
            v = args[0]
            if isinstance(v, Lst) and not v.more and all(isinstance(x, Tup) and len(x.items) == 2 for x in v.items):
                dd: dict = {}
                for x in v.items:
                    dd[x.items[0]] = x.items[1]  # later duplicates of a key win, position of the first is kept
                return [(Dct(tuple(dd.items())), st)]
            return [(app("dict", v), st)]
        if name == "sorted":
            v = args[0]
            if isinstance(v, Dct):
                v = Lst(tuple(k for k, _ in v.items), False)
            if isinstance(v, Lst) and not v.more:
                try:
                    return [(Lst(tuple(sorted(v.items, key=_sort_key)), False), st)]
                except TypeError:
                    return [(app("sorted", v), st)]
            return [(app("sorted", v), st)]
        if name == "iter":
            v = args[0]
            if isinstance(v, Dct):
                v = Lst(tuple(k for k, _ in v.items), False)
            return [(v if isinstance(v, (Lst, Tup)) else app("iter", v), st)]
        if name == "next":
            v = args[0]
            if isinstance(v, (Lst, Tup)) and not getattr(v, "more", False):
                if v.items:
                    return [(v.items[0], st)]
                ex.append((ExcInfo("StopIteration", "lib", site, "next() on an empty iterator"), st))
                return []
            return [(app("next", v), st)]
        if name == "range":
            return [(app(name, *args), st)]
        # ---- containers
        if name.startswith("Lst."):
            m = name[4:]
            v: Lst = recv
            if m == "append":
                return [(None, st, Lst(v.items + (args[0],), v.more))]
            if m == "appendleft":
                return [(None, st, Lst((args[0],) + v.items, v.more))]
            if m == "extend":
                o = args[0]
                if isinstance(o, (Lst, Tup)):
                    return [(None, st, Lst(v.items + tuple(o.items), v.more or getattr(o, "more", False)))]
                if o is None:
                    ex.append((ExcInfo("TypeError", "none-deref", site, "extend(None)"), st))
                    return []
                return [(None, st, Lst(v.items, True))]
            if m == "clear":
                return [(None, st, Lst((), False))]
            if m == "popleft" or (m == "pop" and args and args[0] == 0):
                if v.items:
                    return [(v.items[0], st, Lst(v.items[1:], v.more))]
                if v.more:
                    return [(Sym(("a", "queue-item")), st, v)]
                ex.append((ExcInfo("IndexError", "lib", site, "pop from an empty deque"), st))
                return []
            if m == "copy":
                return [(v, st)]
            raise AnalysisError(f"unsupported list method {m} at {site}")
        if name.startswith("Dct."):
            m = name[4:]
            d: Dct = recv
            if m == "get":
                k = args[0]
                default = args[1] if len(args) > 1 else None
                if isinstance(k, (Sym,)):
                    out = []
                    for val, s2 in ip.fork_dom(("dget", repr(k)), tuple({v for _, v in d.items}) + (default,), st):
                        out.append((val, s2))
                    return out
                for kk, vv in d.items:
                    if kk == k:
                        return [(vv, st)]
                return [(default, st)]
            if m == "update":
                o = args[0]
                if isinstance(o, Dct):
                    items = dict(d.items)
                    items.update(dict(o.items))
                    return [(None, st, Dct(tuple(items.items())))]
                raise AnalysisError(f"dict.update with {o!r} at {site}")
            if m == "items":
                return [(Lst(tuple(Tup((k, v)) for k, v in d.items), False), st)]
            if m == "clear":
                return [(None, st, Dct(()))]
            if m == "pop":
                k = args[0]
                for kk, vv in d.items:
                    if kk == k:
                        return [(vv, st, Dct(tuple((a, b) for a, b in d.items if a != k)))]
                if len(args) > 1:
                    return [(args[1], st)]
                ex.append((ExcInfo("KeyError", "lib", site, f"dict.pop of a missing key {k!r}"), st))
                return []
            if m in ("keys", "values"):
                return [(Lst(tuple((k if m == "keys" else v) for k, v in d.items), False), st)]
            raise AnalysisError(f"unsupported dict method {m} at {site}")
        if name.startswith("FreeDict."):
            m = name[9:]
            fd: FreeDict = recv
            if m == "get":
                k = args[0]
                if isinstance(k, E):
                    if k in fd.keys:
                        return list(ip.fork_dom((fd.tag, repr(k)), fd.dom, st, sticky=True))
                    return [(args[1] if len(args) > 1 else None, st)]
                return list(ip.fork_dom((fd.tag, repr(k)), fd.dom + (None,), st, sticky=True))
            raise AnalysisError(f"unsupported FreeDict method {m} at {site}")
        if name.startswith("UnkIter."):
            m = name[8:]
            u: UnkIter = recv
            if m == "items":
                return [(UnkIter(u.base, u.lo, "pair"), st)]
            if m in ("keys", "values"):
                return [(UnkIter(u.base + (m,), u.lo, "any"), st)]
            raise AnalysisError(f"unsupported method {m} on unknown collection at {site}")
        if name.startswith(("Tup.", "str.", "bytes.")):
            return [(app(name, recv, *args), st)]
        # ---- library class functions
        if name == "PduConfig.empty":
            s2 = st.fork()
            ref = s2.alloc("PduConfig", {})
            ip.event(s2, "alloc", "PduConfig", (ref.oid,), site)
            return [(ref, s2)]
        if name in ("Countdown.from_seconds", "Countdown.from_millis"):
            s2 = st.fork()
            ref = s2.alloc("Countdown", {"$epoch": 0, "$interval": args[0] if args else None, "$fresh": True})
            ip.event(s2, "timer", "create", (ref.oid, args[0] if args else None), site)
            return [(ref, s2)]
        if name in ("Countdown.timed_out", "Countdown.busy"):
            ep = st.heap[recv.oid].get("$epoch", 0)
            if st.heap[recv.oid].get("$fresh") and self.fresh_timers_running:
                # a timer created (or re-armed) by this very call has not expired yet: intervals are positive
                s3 = st.fork()
                ip.event(s3, "timer", "running", (recv.oid,), site)
                return [(not name.endswith("timed_out"), s3)]
            out = []
            for b, s2 in ip.fork_bool(("timer", recv.oid, ep), st):
                s3 = s2.fork()
                ip.event(s3, "timer", "expired" if b else "running", (recv.oid,), site)
                out.append((b if name.endswith("timed_out") else (not b), s3))
            return out
        if name == "Countdown.reset":
            s2 = st.fork()
            s2.set_field(recv.oid, "$epoch", st.heap[recv.oid].get("$epoch", 0) + 1)
            s2.set_field(recv.oid, "$fresh", True)
            ip.event(s2, "timer", "reset", (recv.oid,), site)
            return [(None, s2)]
        if name.startswith("Holder."):
            return self.holder_call(recv, name[7:], st, site, ex)
        if name.startswith("Tracker."):
            return self.tracker_call(recv, name[8:], args, st, site, ex)
        if name.startswith("Pkt."):
            return self.pkt_call(recv, name[4:], args, st, site, ex)
        if name == "SeqProvider.get_and_increment":
            s2 = st.fork()
            cnt = s2.mon.get("seq_calls", 0)
            s2.set_mon("seq_calls", cnt + 1)
            r = Sym(("env", "seq_num_provider.get_and_increment", (cnt,)))
            ip.event(s2, "env", "seq_num_provider.get_and_increment", (r,), site)
            return [(r, s2)]
        if name in ("get_max_file_seg_len_for_max_packet_len_and_pdu_cfg", "get_max_seg_reqs_for_max_packet_size_and_pdu_cfg"):
            s2 = st.fork()
            conf = next((a for a in args if isinstance(a, Ref)), None)
            snap = ()
            if conf is not None:
                snap = tuple(sorted((k, v) for k, v in st.heap[conf.oid].items() if not k.startswith("$")))
            ip.event(s2, "libcall", name, (tuple(args), snap), site)
            if ip.would_catch("ValueError"):
                exs = st.fork()
                ex.append((ExcInfo("ValueError", "lib-config", site, f"{name}: impossible maximum packet length"), exs))
            else:
                ip.env_uncaught[(name, "ValueError", site)] = ip.env_uncaught.get((name, "ValueError", site), 0) + 1
            return [(app(name, *[a for a in args if not isinstance(a, Ref)]), s2)]
        # any other library function: pure, uninterpreted
        clean = tuple(a for a in args) + tuple(sorted(kwargs.items()))
        return [(app(name, *clean), st)]

    # ------------------------------------------------------------------ holders and packets
    def holder_attr(self, h: Holder, name: str, st: Store, fr: Frame, n: ast.AST, ex: list) -> list[tuple[Any, Store]]:
        ip = self.ip
        site = ip.site(fr, n)
        if name in ("pdu", "base"):
            return [(h.pdu, st)]
        if name in ("pdu_type", "pdu_directive_type", "is_file_directive"):
            if h.pdu is None:
                ex.append((ExcInfo("AssertionError", "lib", site, f"PduHolder.{name} on an empty holder"), st))
                return []
            kind = self.kind_of(h.pdu, st)
            if name == "pdu_type":
                return [(E("PduType", "FILE_DATA" if kind == "FD" else "FILE_DIRECTIVE"), st)]
            if name == "is_file_directive":
                return [(kind != "FD", st)]
            if kind == "FD":
                return [(None, st)]
            return [(E("DirectiveType", KIND_DIRECTIVE[kind]), st)]
        if name in CAST or name == "pack":
            return [(LibFn("Holder." + name, h), st)]
        if name == "packet_len":
            return [(Sym(("a", "packet_len")), st)]
        raise AnalysisError(f"PduHolder has no modelled attribute {name} at {site}")

    def holder_call(self, h: Holder, m: str, st: Store, site: str, ex: list) -> list[tuple[Any, Store]]:
        if m in CAST:
            if h.pdu is None:
                ex.append((ExcInfo("TypeError", "lib", site, f"PduHolder.{m} on an empty holder"), st))
                return []
            kind = self.kind_of(h.pdu, st)
            if kind in CAST[m]:
                return [(h.pdu, st)]
            ex.append((ExcInfo("TypeError", "lib", site, f"PduHolder.{m} on a {kind} PDU"), st))
            return []
        return [(Sym(("a", "packed")), st)]

    def kind_of(self, p: Any, st: Store) -> str:
        if isinstance(p, Pdu):
            return p.kind
        if isinstance(p, Ref):
            return st.heap[p.oid]["kind"]
        raise AnalysisError(f"not a PDU: {p!r}")

    def pdu_attr(self, p: Pdu, name: str, st: Store, fr: Frame, n: ast.AST, ex: list) -> list[tuple[Any, Store]]:
        if name == "pdu_type":
            return [(E("PduType", "FILE_DATA" if p.kind == "FD" else "FILE_DIRECTIVE"), st)]
        if name == "directive_type":
            if p.kind == "FD":
                ex.append((ExcInfo("AttributeError", "lib", self.ip.site(fr, n), "FileDataPdu has no directive_type"), st))
                return []
            return [(E("DirectiveType", KIND_DIRECTIVE[p.kind]), st)]
        got = p.get(name, None)
        if got is not None:
            return [(got, st)]
        return [(Sym(("attr", ("a", f"pdu:{p.kind}"), name)), st)]

    def new_packet(self, st: Store, kind: str) -> Ref:
        return st.alloc("$Pkt", {"kind": kind})

    def obj_attr(self, v: Ref, cls: str, name: str, st: Store, fr: Frame, n: ast.AST, ex: list) -> list[tuple[Any, Store]]:
        ip = self.ip
        site = ip.site(fr, n)
        if cls == "$Pkt":
            return self.pkt_attr(v, name, st, site, ex)
        if cls == "Countdown":
            if name in ("timed_out", "busy", "reset"):
                return [(LibFn("Countdown." + name, v), st)]
            return [(Sym(("attr", ("a", "Countdown"), name)), st)]
        if cls == "$SeqProvider":
            if name == "get_and_increment":
                return [(LibFn("SeqProvider.get_and_increment", v), st)]
            return [(Sym(("attr", ("a", "seq_num_provider"), name)), st)]
        if cls in MUTABLE_LIB:
            sig = self.lib_signature(cls) or []
            if name in [x for x, _ in sig] or cls == "PduConfig":
                # unset field of PduConfig.empty(): an opaque library default
                val = Sym(("a", f"{cls}.{name}:default"))
                s2 = st.fork()
                s2.set_field(v.oid, name, val)
                return [(val, s2)]
            return [(LibFn(f"{cls}.{name}", v), st)]
        raise AnalysisError(f"attribute {name} of library object {cls} at {site}")

    def pkt_attr(self, v: Ref, name: str, st: Store, site: str, ex: list) -> list[tuple[Any, Store]]:
        ip = self.ip
        obj = st.heap[v.oid]
        kind = obj["kind"]

        def lazy(dom: tuple) -> list[tuple[Any, Store]]:
            out = []
            for d, s2 in ip.fork_dom(("pkt", name), dom, st):
                s3 = s2.fork()
                s3.set_field(v.oid, name, d)
                out.append((d, s3))
            return out

        def sym() -> list[tuple[Any, Store]]:
            return [(Sym(("a", f"pkt.{name}")), st)]

        if name == "pdu_type":
            return [(E("PduType", "FILE_DATA" if kind == "FD" else "FILE_DIRECTIVE"), st)]
        if name == "directive_type":
            if kind == "FD":
                ex.append((ExcInfo("AttributeError", "lib", site, "FileDataPdu has no attribute directive_type"), st))
                return []
            return [(E("DirectiveType", KIND_DIRECTIVE[kind]), st)]
        if name == "direction":
            return lazy((E("Direction", "TOWARDS_RECEIVER"), E("Direction", "TOWARDS_SENDER")))
        if name == "transmission_mode":
            return lazy((E("TransmissionMode", "ACKNOWLEDGED"), E("TransmissionMode", "UNACKNOWLEDGED")))
        if name in ("source_entity_id", "dest_entity_id", "transaction_seq_num", "packet_len"):
            return sym()
        if name in ("pdu_header", "pdu_file_directive"):
            return [(v, st)]
        if name == "pdu_conf":
            out = []
            for tm, s2 in self.pkt_attr(v, "transmission_mode", st, site, ex):
                for dr, s3 in self.pkt_attr(v, "direction", s2, site, ex):
                    s4 = s3.fork()
                    ref = s4.alloc("PduConfig", {
                        "trans_mode": tm, "direction": dr,
                        "source_entity_id": Sym(("a", "pkt.source_entity_id")),
                        "dest_entity_id": Sym(("a", "pkt.dest_entity_id")),
                        "transaction_seq_num": Sym(("a", "pkt.transaction_seq_num")),
                        "$from_packet": True,
                    })
                    s4.set_field(v.oid, "pdu_conf", ref)
                    out.append((ref, s4))
            return out
        per_kind: dict[str, dict[str, Any]] = {
            "FD": {"file_data": "sym", "offset": "sym", "segment_metadata": "sym"},
            "EOF": {"file_size": "sym", "file_checksum": "sym", "fault_location": "sym",
                    "condition_code": tuple(E("ConditionCode", m) for m in ["NO_ERROR"] + sorted(self.prog.compared_members("ConditionCode") - {"NO_ERROR"})) + (E("ConditionCode", "$OTHER"),)},
            "METADATA": {"file_size": "sym",
                         "checksum_type": tuple(E("ChecksumType", m) for m in ["NULL_CHECKSUM"] + sorted(self.prog.compared_members("ChecksumType") - {"NULL_CHECKSUM"})) + (E("ChecksumType", "$OTHER"),),
                         "closure_requested": (True, False),
                         "dest_file_name": (None, Sym(("a", "pkt.dest_file_name"))),
                         "source_file_name": (None, Sym(("a", "pkt.source_file_name"))),
                         "options_as_tlv": "method"},
            "FINISHED": {"finished_params": "sym", "condition_code": "sym", "delivery_code": "sym", "file_status": "sym"},
            "ACK_EOF": {"directive_code_of_acked_pdu": E("DirectiveType", "EOF_PDU"), "condition_code_of_acked_pdu": "sym",
                        "transaction_status": "sym"},
            "ACK_FIN": {"directive_code_of_acked_pdu": E("DirectiveType", "FINISHED_PDU"), "condition_code_of_acked_pdu": "sym",
                        "transaction_status": "sym"},
            "NAK": {"segment_requests": UnkIter(("a", "pkt.segment_requests"), 0, "pair"), "start_of_scope": "sym", "end_of_scope": "sym"},
            "KEEP_ALIVE": {"progress": "sym"},
            "PROMPT": {"response_required": "sym"},
        }
        spec = per_kind.get(kind, {}).get(name, _NOPE)
        if spec is _NOPE:
            ex.append((ExcInfo("AttributeError", "lib", site, f"{kind} PDU has no attribute {name}"), st))
            return []
        if spec == "sym":
            return sym()
        if spec == "method":
            return [(LibFn("Pkt." + name, v), st)]
        if type(spec) is tuple:
            return lazy(spec)
        return [(spec, st)]

    def pkt_call(self, recv: Ref, m: str, args: list, st: Store, site: str, ex: list) -> list[tuple[Any, Store]]:
        if m == "options_as_tlv":
            out = []
            for d, s2 in self.ip.fork_dom(("pkt", "options"), (None, UnkIter(("a", "pkt.options"), 0, "any")), st):
                out.append((d, s2))
            return out
        raise AnalysisError(f"packet method {m} at {site}")

    # ------------------------------------------------------------------ summarised tracker
    def summ_construct(self, q: str, st: Store, site: str) -> list[tuple[Any, Store]]:
        s2 = st.fork()
        ref = s2.alloc(q, {"$n": 0})
        return [(ref, s2)]

    def summ_attr(self, v: Ref, cls: str, name: str, st: Store, fr: Frame, n: ast.AST, ex: list) -> list[tuple[Any, Store]]:
        nonempty = st.heap[v.oid]["$n"] != 0
        if name == "num_lost_segments":
            if not nonempty:
                return [(0, st)]
            r = Sym(("a", "tracker.num_lost_segments"))
            s2 = st.fork()
            s2.set_fact(((r.t, 1),), (1, None))
            return [(r, s2)]
        if name == "lost_segments":
            if not nonempty:
                return [(Dct(()), st)]
            return [(UnkIter(("a", "tracker.lost_segments"), 1, "any"), st)]
        if name in TRACKER_METHODS:
            return [(LibFn("Tracker." + name, v), st)]
        raise AnalysisError(f"LostSegmentTracker.{name} is not in the summary at {self.ip.site(fr, n)}")

    def tracker_call(self, recv: Ref, m: str, args: list, st: Store, site: str, ex: list) -> list[tuple[Any, Store]]:
        ip = self.ip
        cur = st.heap[recv.oid]["$n"]
        s2 = st.fork()
        ip.event(s2, "tracker", m, tuple(args) + (("nonempty" if cur else "empty"),), site)
        if m == "reset":
            s2.set_field(recv.oid, "$n", 0)
            return [(None, s2)]
        if m == "add_lost_segment":
            s2.set_field(recv.oid, "$n", "P")
            return [(None, s2)]
        if m == "coalesce_lost_segments":
            return [(None, s2)]
        if m == "remove_lost_segment":
            if cur == 0:
                return [(False, s2)]
            out = []
            for cls in self.tracker_raises.get(m, []):
                s3 = s2.fork()
                ex.append((ExcInfo(cls, "explicit", site, f"raised inside LostSegmentTracker.{m} (summary)"), s3))
            s_same = s2.fork()
            out.append((Sym(("a", "tracker.removed?")), s_same))
            s_empty = s2.fork()
            s_empty.set_field(recv.oid, "$n", 0)
            out.append((True, s_empty))
            return out
        raise AnalysisError(f"tracker method {m}")

    # ------------------------------------------------------------------ environment objects
    def is_env_call(self, cls: str, fi: FuncInfo, st: Store, self_: Ref) -> bool:
        if "$role" not in st.heap[self_.oid]:
            return False
        if fi.is_abstract:
            return True
        owner = (fi.cls or "").split(".")[-1]
        return owner in ("CheckTimerProvider", "RemoteEntityCfgTable")

    def doc_raises(self, fi: FuncInfo) -> list[str]:
        doc = ast.get_docstring(fi.node) or ""
        if "raises" not in doc.lower():
            return []
        out = []
        for nm in ("PermissionError", "FileNotFoundError", "ValueError", "OSError"):
            if re.search(r"\b" + nm + r"\b", doc):
                out.append(nm)
        return out

    def env_call(self, self_: Ref, cls: str, fi: FuncInfo, args: list, kwargs: dict, st: Store, ex: list, site: str) -> list[tuple[Any, Store]]:
        ip = self.ip
        role = st.heap[self_.oid]["$role"]
        name = f"{role}.{fi.name}"
        params = fi.params[1:]
        b: dict[str, Any] = dict(zip(params, args))
        b.update(kwargs)
        a = fi.node.args
        for p, d in zip(params[len(params) - len(a.defaults):], a.defaults):
            if p not in b:
                b[p] = d.value if isinstance(d, ast.Constant) else Sym(("a", "default"))
        argt = tuple(b.get(p) for p in params)
        frozen = tuple(self.freeze_arg(x, st) for x in argt)
        s0 = st.fork()
        epoch = st.mon.get("vfs_epoch", 0)
        if role == "vfs" and fi.name in VFS_MUTATORS:
            s0.set_mon("vfs_epoch", epoch + 1)
        out: list[tuple[Any, Store]] = []
        for exc in self.doc_raises(fi):
            if not ip.would_catch(exc):
                # nobody on the call stack handles it: the call would simply propagate the
                # environment's exception (outside C10); counted, not explored
                ip.env_uncaught[(name, exc, site)] = ip.env_uncaught.get((name, exc, site), 0) + 1
                continue
            se = s0.fork()
            ip.event(se, "env", name, frozen + (("raises", exc),), site)
            ex.append((ExcInfo(exc, "env", site, f"{name} raises {exc} (documented)"), se))
        ann = ast.unparse(fi.node.returns) if fi.node.returns is not None else "None"
        ann = ann.strip("'\"")
        key = ("env", name, tuple(repr(x) for x in argt), epoch if role == "vfs" else 0)
        results: list[tuple[Any, Store]]
        if ann == "None":
            results = [(None, s0)]
        elif ann == "bool":
            results = list(ip.fork_bool(key, s0))
        elif "|" in ann and "None" in [x.strip() for x in ann.split("|")]:
            other = [x.strip() for x in ann.split("|") if x.strip() != "None"][0]
            nn = self.env_value(other, name, argt, s0, key)
            results = []
            for d, s2 in ip.fork_dom(key, (None, "$nonnull"), s0):
                results.append((None if d is None else nn, s2))
        else:
            results = [(self.env_value(ann, name, argt, s0, key), s0)]
        for val, s2 in results:
            s3 = s2.fork()
            if val == "$alloc-countdown":
                val = s3.alloc("Countdown", {"$epoch": 0, "$provided": True, "$fresh": True})
                ip.event(s3, "timer", "create", (val.oid, "provided"), site)
            ip.event(s3, "env", name, frozen + (("ret", val if not isinstance(val, Ref) else "obj"),), site)
            out.append((val, s3))
        return out

    def env_value(self, ann: str, name: str, argt: tuple, st: Store, key: tuple) -> Any:
        simple = ann.split(".")[-1]
        if simple in self.singletons:
            return Ref(self.singletons[simple])
        if simple == "Countdown":
            return "$alloc-countdown"
        return Sym(("env", name, tuple(argt) + (key[3],)))

    def freeze_arg(self, x: Any, st: Store, depth: int = 0) -> Any:
        if isinstance(x, Ref):
            obj = st.heap[x.oid]
            if depth >= 3:
                return Rec(obj["$cls"].split(".")[-1], (("$oid", x.oid),))
            return Rec(obj["$cls"].split(".")[-1], (("$oid", x.oid),) + tuple(sorted(
                (k, self.freeze_arg(v, st, depth + 1)) for k, v in obj.items() if not k.startswith("$"))))
        return x


_NOPE = object()


def _sort_key(x: Any) -> Any:
    if isinstance(x, Tup):
        return tuple(x.items)
    return x

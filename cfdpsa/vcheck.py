#!/venv/bin/python
"""vcheck <property id> [--tier quick|thorough]   - run the static check of one property
   vcheck all [--tier ..]                        - run every registered check (convenience)
Exit codes: 0 held / 1 VIOLATION / 2 ANALYSIS-ERROR."""
from __future__ import annotations

import argparse
import importlib
import os
import sys
from pathlib import Path

sys.path.insert(0, str(Path(__file__).resolve().parent.parent))

from cfdpsa.core import run_check  # noqa: E402

ALL = [f"C{i:02d}" for i in range(1, 21)]


def main() -> int:
    ap = argparse.ArgumentParser()
    ap.add_argument("pid")
    ap.add_argument("--tier", default=os.environ.get("VERIF_TIER", "quick"), choices=["quick", "thorough"])
    a = ap.parse_args()
    pids = ALL if a.pid == "all" else [a.pid]
    rc = 0
    for pid in pids:
        try:
            mod = importlib.import_module(f"cfdpsa.props.{pid.lower()}")
        except ModuleNotFoundError:
            print(f"ANALYSIS-ERROR property={pid} no check module")
            rc = max(rc, 2)
            continue
        r = run_check(pid, mod.check, a.tier)
        rc = max(rc, r)
    return rc


if __name__ == "__main__":
    sys.exit(main())

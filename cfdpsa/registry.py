"""What is claimed per property (feeds MANIFEST.json through mkmanifest.py)."""

CLAIMS: dict[str, dict[str, str]] = {}
NOT_APPLICABLE: dict[str, str] = {}


def claim(pid: str, technique: str, text: str, note: str, ref: str) -> None:
    CLAIMS[pid] = {"technique": technique, "text": text, "note": note, "ref": ref}


claim("C10",
      "abstract interpretation of both handlers (finite domains + origin terms) into an abstract transition system; exception-escape, queue-guard and side-effect-before-rejection rules over all its edges",
      "Decides, for every public call from every reachable abstract handler state and every abstract input (9 PDU kinds x direction x mode, put/cancel requests, timers free, "
      "default fault table), which exception classes can leave the call (R1), that UnretrievedPdusToBeSent is raised only when PDUs were queued on entry (R2) and that admission "
      "rejections precede every side effect (R3). The ATS over-approximates the handlers, so an absent exception edge is definite; each reported edge carries a witness and the "
      "six findings on the pinned tree were reproduced against the real code (known_findings.json). Does not decide exceptions from user callbacks or a contract-breaking filestore.",
      "trusted: library model of spacepackets (libmodel.py), non-reentrant non-raising callbacks, LostSegmentTracker summarised by emptiness (its behaviour is C18), loops over unknown collections explored to 2 elements, timers created in a call do not expire in the same call",
      "DESIGN.md section 2 C10")
claim("C11",
      "syntax-tree rules for shared mutable defaults and class/global stores + abstract comparison of the reset path with a fresh parameter block and stale-value taint through the abstract interpreter",
      "Decides that no mutable object is shared across handler instances through dataclass defaults, class attributes, default arguments or mutated module-level containers (R1), that no "
      "function stores to class attributes or globals (R3), and that every field of the handlers' own state that the reset path leaves different from a freshly constructed handler is "
      "overwritten before the next transaction can read it (R2: fields are marked stale, the reset path is interpreted, follow-up transactions are explored and every use of a stale "
      "value is reported). Does not decide the differential 'same observable trace as a fresh handler' itself.",
      "trusted: objects supplied by the user (configuration, providers, filestore) are outside the property; stale exploration bounded to 120 abstract states in the quick tier",
      "DESIGN.md section 2 C11")
claim("C16",
      "call-graph reachability from the handlers' public API with a light type resolver; who-may-call rule for host I/O; receiver and interface check for every filestore call; positive fixture",
      "Decides the 'never behind its back' clause soundly for the constructs Python code can express statically: no function reachable from either handler's public API (outside "
      "VirtualFilestore implementations) calls open/os/shutil/io/tempfile or a Path I/O method, handler modules import no host-I/O module and name no concrete filestore, every filestore "
      "call goes through self.user.vfs and uses an interface method. Dynamic escape hatches (getattr with computed names, eval, importlib) stop the analysis. The behavioural corollary "
      "(in-memory run equals native run) is not decided.",
      "trusted: spacepackets/crcmod do no file I/O for the handlers; user callbacks are user code",
      "DESIGN.md section 2 C16")
claim("C20",
      "abstract evaluation of the routing and inactive-EOF helpers into complete decision tables; admission outcomes read from the abstract transition systems of both handlers",
      "The property's space is finite and is enumerated completely: 9 PDU kinds through get_packet_destination (table compared with the specification, totality, no dependence on "
      "direction flag or mode), every state_machine(kind) edge of both handlers (kind x direction flag x reachable abstract state: routed-to-the-other-side is always refused with a "
      "protocol exception, routed-to-me is never refused as foreign), 4 transaction-status values through acknowledge_inactive_eof_pdu (ACTIVE refused; otherwise ACK(EOF) towards the "
      "sender with the EOF's condition code and the given status).",
      "trusted: PDU kind model of spacepackets (PduHolder casts, directive types) in libmodel.py; id widths and CRC flag do not enter the analysed code paths (checked: never read)",
      "DESIGN.md section 2 C20")
claim("C14",
      "decision tables of report_fault/set_handler by abstract evaluation; fault-callback and indication events on every edge of the abstract transition systems; declaration sites from the syntax tree",
      "Decides that every declared condition is a key of the default table and foreign keys are refused by set_handler before any update (R1), that report_fault maps each handler code "
      "to exactly its callback with (transaction id, condition, progress) passed through (R2), the effect of each declaration on every abstract path - cancel records the declared "
      "condition, abandon ends idle with nothing issued from the replaced parameter block, no indication carries a null transaction id (R3) - and that one fault is reported once per "
      "call (R4). Quick tier uses the default table, thorough tier frees every table entry over all four handler codes.",
      "trusted: as C10; suspension is unimplemented in the library and only checked for the callback kind",
      "DESIGN.md section 2 C14")
claim("C15",
      "path-sensitive gating, must-occur, ordering and origin-term rules over every indication event of the abstract transition systems (indication switches free per call)",
      "Decides gating (each of the four gated indications occurs only on paths where its own switch was read and is true), completeness (every EOF acceptance, File Data write, EOF "
      "emission and - via a must-analysis over the ATS - every busy-to-idle transition other than abandonment/reset carries its indication when the switch is on), causal order "
      "(Transaction before any PDU, Transaction-Finished last / in the completion step, File-Segment-Recv only after Metadata) and parameter origin (offset/length, Metadata fields, "
      "Finished PDU built from the same unchanged block), and the originating-transaction-id rule as a complete decision table over message lists of up to three messages with free "
      "reserved-message predicates (id surfaced iff some message carries one and no message is a proxy put response).",
      "trusted: as C10",
      "DESIGN.md section 2 C15")
claim("C09",
      "dependence analysis and tiling-idiom recognition on the checksum functions (syntax tree), abstract evaluation of the type table, EOF-construction events of the source handler's abstract transition system",
      "Decides the structural part of the property: every non-null result of calculate_checksum depends on the prefix length (also through calc_modular_checksum), the CRC loop is the "
      "cursor/end tiling idiom from 0 to the prefix length (consecutive, non-overlapping, complete chunks, hence independent of the chunk length), the type->algorithm table "
      "(CRC_32->crc32, CRC_32C->crc32c, NULL->null constant before any file access, MODULAR->modular sum, others refused), verify_checksum is equality with calculate_checksum on the "
      "same arguments, and every EOF PDU the source builds announces the size its checksum was computed over. CRC arithmetic itself (crcmod) and the modular sum arithmetic are not re-derived.",
      "trusted: crcmod predefined CRC tables; the chunk-read helper reads what it is asked to (C17-R4)",
      "DESIGN.md section 2 C09")
claim("C17",
      "syntax-tree rules over the native filestore: status-code families (sibling cross-check), precondition-before-effect order, refusal paths effect-free, open modes and seek/read/write arguments",
      "Decides only structural necessary conditions: each operation returns status codes of its own family, no effectful host call precedes the last precondition test and refusal "
      "paths contain no effect outside a try whose handler returns the refusal, write_data opens non-truncating and seeks to the offset before writing the data, truncate_file "
      "truncates, create_file is exclusive, reads are read-only and seek/read the requested range. The history-quantified equivalence with a reference file-system model is NOT decided.",
      "trusted: the host file system and the Python os/pathlib semantics",
      "DESIGN.md section 2 C17")
claim("C18",
      "order-invariance dataflow check, then abstract evaluation of the tracker's source over every order type of (tracked ranges x operand endpoints) against the interval-set specification",
      "LostSegmentTracker touches offsets only through comparisons, container positions, sorting and the zero-length idiom (checked on the syntax tree), so its behaviour depends only on "
      "the order type of the values involved. Every order type with up to 2 (quick) / 3 (thorough) tracked ranges and every placement of the operand endpoints is evaluated through "
      "add/remove/coalesce with the abstract interpreter and compared with the interval-set specification: denoted set, representation invariant (ascending, non-empty, disjoint), "
      "no adjacent ranges after coalescing, changed-flag, ValueError with an unchanged map for a straddling removal. The invariant is inductive, so the result covers every history "
      "within the stated preconditions.",
      "assumed: generalisation from k<=3 tracked ranges to any k (operations examine each tracked range independently); dict/sorted semantics as modelled in libmodel.py",
      "DESIGN.md section 2 C18")
claim("C19",
      "put_request edges of the source handler's abstract transition system (request x MIB x state), configuration-table key check on the syntax tree, focused abstract run of the transaction start with origin terms",
      "Decides admission (busy => False with no store, PDU or environment call on any abstract path; the two documented raises leave the handler idle), the override tables for "
      "mode and closure over every combination of request-level and MIB-level values, the remote-configuration lookup key, the segment-length decision table (derived or configured, "
      "the configured one only under configured < derived) and that every transaction start obtains exactly one value from the sequence-number provider which is the origin of both "
      "the PDU sequence number and the transaction id.",
      "trusted: as C10; uniqueness of ids additionally rests on the provider returning fresh values (user-supplied object)",
      "DESIGN.md section 2 C19")
claim("C05",
      "who-may-call, provenance (origin-term) and typestate rules over every filestore event of the destination handler's abstract transition system",
      "Decides the 'nothing else is touched' clause and the write discipline: every path-taking filestore call targets the parameter block's resolved destination name; that name is "
      "built only from the Metadata PDU's destination/source names with pure path operators behind is_directory(same path); no filestore mutation while Metadata is missing; "
      "write_data receives the File Data PDU's own data and offset; Metadata acceptance creates or truncates exactly once (truncate iff the file exists); delete_file only when "
      "cancelled with the disposition flag set and incomplete data. Byte content after overlapping writes and zero-filled gaps is write_data's semantics and is not decided.",
      "trusted: as C10; the filestore implementation (C17 for the native one)",
      "DESIGN.md section 2 C05")
claim("C12",
      "decision table of cancel_request, origin-term and must-occur rules over the cancel and EOF(cancel) edges of both abstract transition systems, forward reachability after a sender cancel",
      "Decides the return table (False without effect when idle or for a foreign id, True with the cancel effects otherwise; no constant-false cross-enum comparison on any path), "
      "the sender's reaction (exactly one EOF with Cancel-Request-Received whose size and checksum length are the progress; no state reachable afterwards in that transaction builds "
      "a new File Data PDU), and the receiver's (CANCELED with the condition and the local entity id for Cancel.request, the EOF's condition and the remote entity id for EOF(cancel); "
      "Finished PDU iff closure or acknowledged mode, carrying what was indicated).",
      "trusted: as C10",
      "DESIGN.md section 2 C12")
claim("C01",
      "gate analysis: path-sensitive must-precede rules over the DATA_COMPLETE stores and completion-step entries of the destination ATS; origin-term rules over Metadata/EOF construction at the source",
      "Decides the integrity gate, not the bytes: DATA_COMPLETE is stored only behind equality of the filestore's checksum (Metadata's type, destination file, progress) with the "
      "EOF's checksum, or for the NULL type, or metadata-only; in acknowledged mode the completion step is entered only with nothing recorded missing (or cancelled / metadata-only); "
      "both ends hash the same thing; the sender fabricates a success report only without closure in unacknowledged mode. Byte identity itself (tracker exactness, filestore writes, "
      "CRC collisions) is not decided.",
      "trusted: as C10, plus C18 (tracker exactness) and C17 (filestore writes) for the step from the gate to the bytes",
      "DESIGN.md section 2 C01")
claim("C04",
      "typestate / counter-discipline rules over timer, counter, fault and PDU events of the abstract transition systems with a linear normal form for the limit comparison; backward reachability of idle over packet-less edges; sibling cross-check",
      "Decides the premises of the exactness argument for the three timer-driven procedures (count zero at timer creation; incremented only on an observed expiry below the limit, "
      "together with re-arming and re-sending; the single count/limit comparison has the normal form count + 1 - limit >= 0 or == 0, so the fault fires exactly at the configured "
      "expiry), that accepted missing data resets count and timer, and - definitely, because the ATS over-approximates - whether idle is reachable with a silent peer from every "
      "reachable abstract state (documented waits exempt). Wall-clock behaviour of Countdown is not decided.",
      "trusted: as C10; Countdown (spacepackets)",
      "DESIGN.md section 2 C04")
claim("C13",
      "the same counter-discipline rules for the check-limit procedure plus entry/typestate rules over check-timer events of both abstract transition systems",
      "Decides entry into check-limit handling (unacknowledged, ignored checksum failure, timer with RECEIVING, zero count), that File Data and EOF are still consumed in that step, "
      "re-verification on every expiry with exactly one of (completion, count, limit fault), the exact limit comparison, the sender's check timer (SENDING, with the EOF, expiry "
      "while awaiting Finished declares the fault) and that the default table ignores checksum failures. That late data yields an identical file is not decided.",
      "trusted: as C10",
      "DESIGN.md section 2 C13")
claim("C07",
      "typestate, provenance (origin-term) and ordering rules over the PDU-construction, PduConfig-store, read and progress events of the source handler's abstract transition system",
      "Decides structural necessary conditions of the stream property: one PduConfig object for every PDU, stored only by transaction-start code; every header-determining field "
      "stored before the segment length is derived; at most one progressing File Data PDU per call; the progressing builder reads (progress, len) with len in {file size, "
      "file size - progress, segment length}, emits exactly what it read at offset progress and advances progress by len; emission typestate of Metadata / File Data / EOF; field "
      "provenance of Metadata and EOF. That encoded PDUs parse and respect the maximum packet length is the library encoders' business and is not decided.",
      "trusted: as C10; get_max_file_seg_len_for_max_packet_len_and_pdu_cfg (spacepackets) derives a length that fits",
      "DESIGN.md section 2 C07")
claim("C08",
      "taint-style validation rule and tiling-idiom recognition on the NAK servicing functions (syntax tree); store/typestate rules over NAK edges and RETRANSMITTING exits of the source ATS",
      "Decides that both ends of every segment request are compared with each other and with the progress before anything is re-sent (and nothing retransmitted is built on an edge "
      "that rejects the NAK), that the chunking loop is one of three recognised tiling idioms over exactly [start, end) with chunks bounded by the segment length, that serving a NAK "
      "stores neither progress, file size nor EOF condition, saves the interrupted step and the next call restores exactly that step, that (0,0) goes through the metadata builder, "
      "and that a retransmitted PDU carries what was read at its own offset. Byte equality with the file is the filestore's read semantics.",
      "trusted: as C10",
      "DESIGN.md section 2 C08")
claim("C02",
      "reachability search over each abstract transition system (node x collected PDU/indication bits) for every nominal scenario, backward reachability of idle, and reachability of joint completion in the product of both transition systems over an abstract link",
      "Decides necessary conditions only: for 16 scenarios ({file, metadata-only} x {unacknowledged, with closure, acknowledged, acknowledged with closure} x both handlers) the "
      "nominal fault-free trace - expected PDUs, exactly the successful Transaction-Finished indication, no fault callback, no exception, back to idle - is a path of the ATS, and "
      "idle is reachable from every reachable abstract state; entity ids and sequence numbers are compared by value at admission; Metadata acceptance creates or truncates exactly "
      "once; and - in the PRODUCT of the two transition systems over a lossless in-order abstract link - successful completion of both sides is reachable for all 8 shape x mode "
      "combinations. Because the ATS over-approximates the handlers, a missing path or a trap is a definite defect; the presence of the path does not prove completion for every "
      "size, width or pacing.",
      "trusted: as C10",
      "DESIGN.md section 2 C02")
claim("C03",
      "acceptance matrix (step x retransmitted PDU kind) read from the abstract transition systems; reachability analysis in the product of the two abstract transition systems with single-PDU drops",
      "Recovery under bounded faults is a liveness property of two communicating machines and is NOT decided. Decided is one structural necessary condition: which step accepts "
      "which retransmitted PDU - re-sent EOF acknowledged in every destination step after the first EOF, valid NAK served in the three source steps, Metadata / File Data consumed "
      "in the two deferred waits, Finished accepted while the EOF is unacknowledged - and a second, end-to-end one: in the product of the two transition systems over an abstract "
      "link, under the property's premise that no expiration limit is reached, successful completion stays reachable after dropping any single PDU at any point of an acknowledged "
      "transfer (a drop after which completion is unreachable in the over-approximating product can never be recovered by the real handlers). On the pinned tree exactly the "
      "ACK(EOF) cells fail (recorded: one lost ACK(EOF) is unrecoverable).",
      "trusted: as C10; the surrounding entity acknowledges EOFs of closed transactions as documented",
      "DESIGN.md section 2 C03")
claim("C06",
      "origin-term and typestate rules over every NAK-construction event of the destination ATS; bounded-write idiom check of the deferred builder and one-sided-comparison rule on the EOF handler (syntax tree)",
      "The exactness of the requested byte set over arrival histories is NOT decided (it needs an inductive invariant over tracker, offsets and stored bytes). Decided clauses: (0,0) "
      "only while metadata is missing; deferred batching appends every tracked range, flushes exactly at the capacity derived from the maximum packet length and flushes the "
      "remainder; deferred requests are the tracker's items unmodified with scope (0, EOF size), immediate requests are (last end, offset) within (0, offset+len); nothing missing "
      "means no NAK and completion; both orderings of progress vs EOF size are handled (tail gap / size fault).",
      "trusted: as C10, C18 for the tracker's content",
      "DESIGN.md section 2 C06")


# rules added after the first complete pass (DESIGN.md A5, A5.1, A6): appended to the claims above
_ADDED = {
    "C02": "Also decided: ids compared by value (R3), create/truncate exactly once on Metadata acceptance (R4), end-to-end completion in the product of both transition systems over a "
           "lossless link for 8 shape x mode x closure scenarios (R5, definite when unreachable), and no silently lost input: a PDU offered in the call that enters a (derived) wait step "
           "is handled in that call if that step handles it (R6).",
    "C03": "Also decided: every call that acknowledges an EOF stores the checksum the completion check compares against (R1d); in the product, acknowledgements carry the transaction "
           "status (handlers ACTIVE, the entity for closed transactions inactive); thorough tier: any TWO dropped PDUs (R3).",
    "C04": "R3 exempts the documented 'awaiting file data / EOF' wait only before an EOF was processed; R4 treats a true limit comparison on an edge as the declaration, whether or not a "
           "callback follows; counter-discipline instances are deduplicated by (key, outcome).",
    "C05": "R2 additionally requires the joined source name to be reduced to its base name.",
    "C06": "R5 is decided on the ATS (tail gap recorded / size fault declared on EOF edges); R6: a gap is recorded whatever the NAK mode, the extent before Metadata starts at 0; R7: a list "
           "handed to a PDU constructor is not mutated afterwards. Idiom rules match the normalised syntax tree (private helpers inlined, local aliases expanded).",
    "C09": "R2 has a definite, shape-independent clause (the bytes fed to the CRC are data-dependent on the prefix length) and follows an extracted helper; R6 modular word grid; R7: a "
           "prefix length of 0 is legal (never decided by truthiness).",
    "C12": "R3 demands completion by packet-less calls after Cancel.request; R4: a transaction recorded as cancelled emits no NAK and its condition/delivery code are never replaced by "
           "success; R5: every path that takes up an EOF consults its condition code.",
    "C13": "R2 additionally: the check count is zeroed and the timer restarted only on entry into the check-limit step (not by late File Data or packet-less calls inside it).",
    "C14": "R3 additionally: a notice of cancellation records the declared condition for the completion; abandonment per condition and event order; R5: all-code probe of the fault "
           "declaration helper (a crash before the callback is a finding); R6: every fault-handler table instance owns its dict.",
    "C16": "R4: the user base class stores the supplied filestore object itself whenever one is supplied (identity, not truthiness).",
    "C17": "R5/R6: refusals by exception only for atomically failing host calls, SUCCESS only after the effect; R7: no instance state is read by an operation, or every path-keyed memo is "
           "invalidated by every operation for every existing path it changes.",
}
_ADDED3 = {
    "C01": "R5: every call that takes up a Metadata PDU (first PDU or recovered) records its checksum type and closure flag.",
    "C03": "R1f: in acknowledged mode FILE_CHECKSUM_FAILURE is declared only when nothing is recorded missing.",
    "C04": "R1: a limit fault must come with a recorded comparison against the configured limit; R5: an edge that accepts the awaited acknowledgement in its wait step re-sends nothing.",
    "C06": "R8: no PDU kept in stored state is queued again (reported even when the interpreter part fails closed).",
    "C08": "R3 additionally: no in-place mutation of per-transaction objects in functions reachable from NAK servicing.",
    "C09": "R8: the modular sum is reduced modulo 2**32 by a statement that dominates the 4-byte packing.",
    "C10": "R4: after every public call the ready-PDU counter equals the number of queued PDUs.",
    "C11": "R1f: no in-place mutation of objects reachable from the put request or the user-supplied configuration objects; definite syntax-tree findings are reported even when the "
           "interpreter-based part cannot run.",
    "C14": "R7 (thorough, free table): the queue/counter invariant holds across abandonment paths.",
    "C19": "R1 additionally: a refused put request leaves nothing behind but the stored request object.",
}
for _pid, _extra in _ADDED3.items():
    _ADDED[_pid] = (_ADDED.get(_pid, "") + " " + _extra).strip()
for _pid, _extra in _ADDED.items():
    if _pid in CLAIMS:
        CLAIMS[_pid]["text"] += " " + _extra

"""What is claimed per property (feeds MANIFEST.json through mkmanifest.py)."""

CLAIMS: dict[str, dict[str, str]] = {}
NOT_APPLICABLE: dict[str, str] = {}


def claim(pid: str, technique: str, text: str, note: str, ref: str) -> None:
    CLAIMS[pid] = {"technique": technique, "text": text, "note": note, "ref": ref}


claim("C10",
      "abstract interpretation of both handlers (finite domains + origin terms) into an abstract transition system; exception-escape, queue-guard and side-effect-before-rejection rules over all its edges",
      "Decides, for every public call from every reachable abstract handler state and every abstract input (9 PDU kinds x direction x mode, put/cancel requests, timers free, "
      "default fault table), which exception classes can leave the call (R1), that UnretrievedPdusToBeSent is raised only when PDUs were queued on entry (R2) and that admission "
      "rejections precede every side effect (R3). The ATS over-approximates the handlers, so an absent exception edge is definite; each reported edge carries a witness and the "
      "six findings on the pinned tree were reproduced against the real code (known_findings.json). Does not decide exceptions from user callbacks or a contract-breaking filestore.",
      "trusted: library model of spacepackets (libmodel.py), non-reentrant non-raising callbacks, LostSegmentTracker summarised by emptiness (its behaviour is C18), loops over unknown collections explored to 2 elements, timers created in a call do not expire in the same call",
      "DESIGN.md section 2 C10")
claim("C11",
      "syntax-tree rules for shared mutable defaults and class/global stores + abstract comparison of the reset path with a fresh parameter block and stale-value taint through the abstract interpreter",
      "Decides that no mutable object is shared across handler instances through dataclass defaults, class attributes, default arguments or mutated module-level containers (R1), that no "
      "function stores to class attributes or globals (R3), and that every field of the handlers' own state that the reset path leaves different from a freshly constructed handler is "
      "overwritten before the next transaction can read it (R2: fields are marked stale, the reset path is interpreted, follow-up transactions are explored and every use of a stale "
      "value is reported). Does not decide the differential 'same observable trace as a fresh handler' itself.",
      "trusted: objects supplied by the user (configuration, providers, filestore) are outside the property; stale exploration bounded to 120 abstract states in the quick tier",
      "DESIGN.md section 2 C11")
claim("C16",
      "call-graph reachability from the handlers' public API with a light type resolver; who-may-call rule for host I/O; receiver and interface check for every filestore call; positive fixture",
      "Decides the 'never behind its back' clause soundly for the constructs Python code can express statically: no function reachable from either handler's public API (outside "
      "VirtualFilestore implementations) calls open/os/shutil/io/tempfile or a Path I/O method, handler modules import no host-I/O module and name no concrete filestore, every filestore "
      "call goes through self.user.vfs and uses an interface method. Dynamic escape hatches (getattr with computed names, eval, importlib) stop the analysis. The behavioural corollary "
      "(in-memory run equals native run) is not decided.",
      "trusted: spacepackets/crcmod do no file I/O for the handlers; user callbacks are user code",
      "DESIGN.md section 2 C16")

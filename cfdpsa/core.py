"""Check plumbing: context, findings, evidence, known-findings matching, ATS cache, exit codes."""
from __future__ import annotations

import fcntl
import ast
import hashlib
import json
import os
import pickle
import sys
import time
from dataclasses import dataclass, field
from pathlib import Path
from typing import Any

from .ats import ATS, Harness, show_choices, show_label
from .model import AnalysisError, Program, REPO

VERIF = Path(__file__).resolve().parent.parent
OUT = VERIF / "out"
CACHE = OUT / "cache"
EVIDENCE = Path(os.environ["CFDPSA_EVIDENCE_DIR"]) if os.environ.get("CFDPSA_EVIDENCE_DIR") else VERIF / "evidence"
KNOWN = VERIF / "known_findings.json"


def analyser_digest() -> str:
    h = hashlib.sha256()
    for name in ("model.py", "roles.py", "values.py", "interp.py", "libmodel.py", "ats.py"):  # what the ATS depends on
        p = Path(__file__).resolve().parent / name
        h.update(p.name.encode())
        h.update(p.read_bytes())
    return h.hexdigest()[:12]


def closure_digest(prog: Program, which: str) -> tuple[str, list[str]]:
    """digest of what the abstract transition system of one handler is computed from: the (role-canonicalised) syntax
    trees, with positions, of the handler's module and of every package module it transitively imports names from, plus the
    qualified names of all top-level definitions of the package (so that a definition added anywhere changes the key)."""
    start = f"{prog.pkg}.handler.{which}"
    if start not in prog.modules:
        raise AnalysisError(f"module {start} not found")
    seen: list[str] = []
    todo = [start]
    while todo:
        m = todo.pop()
        if m in seen:
            continue
        seen.append(m)
        parts = m.split(".")
        for i in range(1, len(parts)):  # the packages on the way (their __init__ is part of name resolution)
            pk = ".".join(parts[:i])
            if pk in prog.modules and pk not in seen:
                seen.append(pk)
        for q in prog.modules[m].imports.values():
            q = prog.resolve_export(q)
            cand = q
            while cand and cand not in prog.modules:
                cand = cand.rpartition(".")[0]
            if cand and cand.startswith(prog.pkg) and cand not in seen:
                todo.append(cand)
    h = hashlib.sha256()
    for m in sorted(seen):
        h.update(m.encode())
        h.update(ast.dump(prog.modules[m].tree, include_attributes=True).encode())
    h.update(repr(sorted(prog.classes) + sorted(prog.functions)).encode())
    h.update(prog.spacepackets_version.encode())
    return h.hexdigest()[:16], sorted(seen)


@dataclass
class Finding:
    rule: str  # e.g. C10-R1
    key: str  # stable construct key: function | normalised statement/semantic role
    message: str
    where: str = ""  # file:line (diagnostic only, never part of the key)
    witness: Any = None


@dataclass
class Instance:
    rule: str
    construct: str
    verdict: str  # ok | violation | known | n/a
    where: str = ""


class Evidence:
    def __init__(self, pid: str, tier: str) -> None:
        self.pid = pid
        self.tier = tier
        self.instances: list[Instance] = []
        self.minima: dict[str, int] = {}
        self.samples: list[Any] = []
        self.assumptions: list[str] = []
        self.extra: dict[str, Any] = {}
        self.rules_desc: dict[str, str] = {}
        self.t0 = time.time()

    def rule(self, rule: str, desc: str, minimum: int = 1) -> None:
        self.rules_desc[rule] = desc
        self.minima[rule] = minimum

    def inst(self, rule: str, construct: str, verdict: str = "ok", where: str = "") -> None:
        self.instances.append(Instance(rule, construct, verdict, where))

    def count(self, rule: str) -> int:
        return sum(1 for i in self.instances if i.rule == rule)

    def sample(self, x: Any) -> None:
        if len(self.samples) < 12:
            self.samples.append(x)

    def assume(self, a: str) -> None:
        if a not in self.assumptions:
            self.assumptions.append(a)

    def check_minima(self, exempt: set[str] | None = None) -> None:
        for rule, m in self.minima.items():
            n = self.count(rule)
            if n < m and rule not in (exempt or set()):
                raise AnalysisError(f"rule {rule} matched {n} < {m} instances (anchor vanished or rule blind)")


class Ctx:
    def __init__(self, tier: str = "quick", jobs: int | None = None, progress: bool = False) -> None:
        self.tier = tier
        self.prog = Program()
        self.jobs = jobs or int(os.environ.get("CFDPSA_JOBS", "0") or 0) or min(16, os.cpu_count() or 1)
        self.progress = progress
        self._ats: dict[tuple, ATS] = {}
        self._harness: dict[tuple, Harness] = {}

    def harness(self, which: str, fault_table: str = "default", **kw: Any) -> Harness:
        key = (which, fault_table, tuple(sorted(kw.items())))
        if key not in self._harness:
            self._harness[key] = Harness(self.prog, which, fault_table, **kw)
        return self._harness[key]

    def ats(self, which: str, fault_table: str = "default", with_reset: bool = False, follow_undrained: bool = False,
            k_iter: int = 2, k_while: int = 3) -> ATS:
        if self.tier == "thorough" and os.environ.get("CFDPSA_THOROUGH_ATS", "1") == "1":
            # deeper exploration: users that never retrieve queued PDUs are followed, unknown collections are explored to 3 elements
            follow_undrained, k_iter = True, max(k_iter, 3)
        key = (which, fault_table, with_reset, follow_undrained, k_iter, k_while)
        if key in self._ats:
            return self._ats[key]
        CACHE.mkdir(parents=True, exist_ok=True)
        # keyed by what this handler's analysis can consult: a change confined to the other handler's module reuses the entry
        tag = hashlib.sha256(repr((closure_digest(self.prog, which)[0], analyser_digest(), key)).encode()).hexdigest()[:20]
        variant = fault_table + ("-deep" if follow_undrained else "")
        path = CACHE / f"ats-{which}-{variant}-{tag}.pkl"
        lock = CACHE / f"ats-{which}-{variant}-{tag}.lock"
        h = Harness(self.prog, which, fault_table, k_iter=k_iter, k_while=k_while)
        with open(lock, "w") as lf:
            fcntl.flock(lf, fcntl.LOCK_EX)
            a: ATS | None = None
            if path.exists():
                try:
                    with open(path, "rb") as f:
                        data = pickle.load(f)
                    a = ATS.__new__(ATS)
                    a.__dict__.update(data)
                    a.h = h
                    a.cached = True
                    os.utime(path)
                except Exception:  # noqa: BLE001  corrupted cache: rebuild
                    a = None
            if a is None:
                if self.progress:
                    print(f"  building the abstract transition system of the {which} handler ({fault_table} fault table) ...", flush=True)
                a = ATS(h, tier="quick", with_reset=with_reset, follow_undrained=follow_undrained, jobs=self.jobs, progress=self.progress, max_nodes=60000)
                a.cached = False
                data = {k: v for k, v in a.__dict__.items() if k not in ("h", "_interned")}
                tmp = path.with_suffix(".tmp%d" % os.getpid())
                with open(tmp, "wb") as f:
                    pickle.dump(data, f, protocol=pickle.HIGHEST_PROTOCOL)
                os.replace(tmp, path)
                # keep the cache small: only the most recent entries per handler/table survive
                olds = sorted((o for o in CACHE.glob(f"ats-{which}-{variant}-*.pkl") if o != path), key=lambda o: o.stat().st_mtime, reverse=True)
                for old in olds[max(1, int(os.environ.get("CFDPSA_CACHE_KEEP", "12"))) - 1:]:
                    try:
                        old.unlink()
                        old.with_suffix(".lock").unlink()
                    except OSError:
                        pass
        self._ats[key] = a
        return a


def witness_of(a: ATS, e: Any, limit: int = 30) -> dict[str, Any]:
    """diagnosable description of one ATS edge: how to get to its source node, the call, the choices"""
    path = a.path_to(e.src)
    return {
        "handler": a.h.which,
        "prefix": [show_label(x.label) + (f" !{x.exc.cls}" if x.exc else "") for x in path][-12:],
        "call": show_label(e.label),
        "pre": {k: v for k, v in zip(a.h.WATCH[a.h.which], [_j(x) for x in e.pre]) if k in ("states.state", "states.step", "_pdus_to_be_sent", "_params.pdu_conf.trans_mode")},
        "choices": show_choices(e.ch, limit),
        "config": [f"{k} = {_j(v)}" for k, v in e.cfg],
        "events": [f"{ev.kind}:{ev.name} @{ev.site}" for ev in e.ev][-limit:],
        "outcome": (f"raises {e.exc.cls} ({e.exc.origin}) at {e.exc.site}: {e.exc.detail}" if e.exc else f"returns {e.ret!r}"),
    }


def _j(v: Any) -> Any:
    if v is None or isinstance(v, (bool, int, str, float)):
        return v
    if isinstance(v, (list, tuple)):
        return [_j(x) for x in v]
    if isinstance(v, dict):
        return {str(k): _j(x) for k, x in v.items()}
    return repr(v)


def load_known() -> dict[str, Any]:
    if not KNOWN.exists():
        return {"findings": [], "fixed": []}
    return json.loads(KNOWN.read_text())


def run_check(pid: str, fn: Any, tier: str, level: str = "other") -> int:
    """runs one property check; prints the protocol lines; returns the exit code"""
    t0 = time.time()
    seed = int(os.environ.get("VERIF_SEED", "0") or 0)
    try:
        ctx = Ctx(tier, progress=bool(os.environ.get("CFDPSA_PROGRESS")))
        ev = Evidence(pid, tier)
        findings: list[Finding] = fn(ctx, ev)
        # a rule that reports a violation not listed as known is not "blind": its shortfall of instances (a violating construct
        # often ends the rule's walk early) must not turn the violation into an analysis error
        kk = {(k.get("rule"), k.get("key")) for k in load_known().get("findings", []) if k.get("property") == pid}
        fresh = [f for f in findings if (f.rule, f.key) not in kk]
        try:
            ev.check_minima(exempt={f.rule for f in fresh})
        except AnalysisError as e:
            if not fresh:
                raise
            # a definite violation is reported; the shortfall of another rule on the same (changed) construct is only noted
            print(f"note: {e} - reported together with the violation(s) below")
    except AnalysisError as e:
        print(f"ANALYSIS-ERROR property={pid} {e}")
        return 2
    except Exception as e:  # noqa: BLE001
        import traceback
        traceback.print_exc()
        print(f"ANALYSIS-ERROR property={pid} internal error: {type(e).__name__}: {e}")
        return 2
    known = [k for k in load_known().get("findings", []) if k.get("property") == pid]
    matched: set[int] = set()
    unknown: list[Finding] = []
    seen_keys: set[tuple] = set()
    for f in findings:
        if (f.rule, f.key) in seen_keys:
            continue
        seen_keys.add((f.rule, f.key))
        hit = None
        for i, k in enumerate(known):
            if k.get("rule") == f.rule and k.get("key") == f.key:
                hit = i
                break
        if hit is None:
            unknown.append(f)
        else:
            matched.add(hit)
    for i in sorted(matched):
        k = known[i]
        print(f"KNOWN-FINDING: property={pid} {k.get('id', '')} [{k['rule']}] {k['what']}")
    stale = [k for i, k in enumerate(known) if i not in matched and not (k.get("tier") == "thorough" and tier != "thorough")]
    for k in stale:
        print(f"note: listed finding {k.get('id', '')} [{k['rule']}] {k['key']} is no longer reported on this tree")
    rc = 0
    if unknown:
        rc = 1
        rdir = (EVIDENCE.parent / "replay") if os.environ.get("CFDPSA_EVIDENCE_DIR") else (OUT / "replay")
        rdir.mkdir(parents=True, exist_ok=True)
        for n, f in enumerate(unknown):
            rp = rdir / f"{pid}-{n}.json"
            rp.write_text(json.dumps({"property": pid, "rule": f.rule, "key": f.key, "message": f.message, "where": f.where,
                                      "witness": _j(f.witness), "tier": tier}, indent=1))
            print(f"[{f.rule}] {f.where} {f.message}")
            print(f"    construct: {f.key}")
            print(f"VIOLATION property={pid} replay={rp}")
    wall = time.time() - t0
    if ctx._ats and "ats" not in ev.extra:
        ev.extra["ats"] = {f"{k[0]}/{k[1]}": {"nodes": len(a.nodes), "edges": len(a.edges), "from_cache": getattr(a, "cached", False),
                                               "build_wall_s": round(a.wall, 1), "functions_interpreted": len(a.stats["funcs_entered"]),
                                               "statements_interpreted": a.stats["stmts"]} for k, a in ctx._ats.items()}
        ev.extra.setdefault("states", sum(len(a.nodes) for a in ctx._ats.values()))
        ev.extra.setdefault("transitions", sum(len(a.edges) for a in ctx._ats.values()))
        for a in ctx._ats.values():
            for k, n in sorted(a.stats["assumptions"].items(), key=lambda kv: -kv[1])[:6]:
                ev.assume(f"engine: {k}")
    constructs = {(i.rule, i.construct) for i in ev.instances}
    per_rule = {}
    for i in ev.instances:
        d = per_rule.setdefault(i.rule, {"instances": 0, "ok": 0, "violation": 0})
        d["instances"] += 1
        d["ok" if i.verdict == "ok" else "violation"] += 1
    evidence = {
        "property_id": pid, "tier": tier, "seed": seed, "level": level,
        "coverage": {
            "explanation": ev.extra.pop("explanation", "static analysis of /repo/src/cfdppy (see rules)"),
            "evaluations": len(ev.instances),
            "distinct_nontrivial": len(constructs),
            "rule": "one evaluation = one rule instance (construct or abstract path) examined; distinct = distinct (rule, construct) pairs the rule constrained",
            "samples": ev.samples or [vars(i) for i in ev.instances[:8]],
            "obligations": len(ev.instances),
            "discharged": sum(1 for i in ev.instances if i.verdict == "ok"),
            "rules": {r: {"what": d, **per_rule.get(r, {"instances": 0})} for r, d in ev.rules_desc.items()},
            "known_findings_matched": [known[i].get("id") for i in sorted(matched)],
            "tree_digest": ctx.prog.digest, "spacepackets": ctx.prog.spacepackets_version, "private_names_recognised_by_role": ctx.prog.role_notes,
            **ev.extra,
        },
        "assumptions": ev.assumptions,
        "wall_s": round(wall, 2),
        "violations": len(unknown),
    }
    EVIDENCE.mkdir(parents=True, exist_ok=True)
    (EVIDENCE / f"{pid}.json").write_text(json.dumps(_j(evidence), indent=1))
    print(f"{pid} [{tier}]: {len(ev.instances)} rule instances over {len(constructs)} constructs, "
          f"{len(matched)} known finding(s), {len(unknown)} violation(s), {wall:.1f}s")
    return rc

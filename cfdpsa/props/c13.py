"""C13 - unacknowledged transfers tolerate EOF overtaking file data up to the check limit.

(R1) entry: in unacknowledged mode a checksum mismatch at EOF with handler code "ignore" enters the
check-limit step, obtains the check timer with RECEIVING and a zero count; File Data is still
consumed (written) in that step.  (R2) counter discipline of the check-limit procedure (same
obligations as C04-R1): re-verification on every expiry, success completes, otherwise the fault
fires exactly at the configured expiry.  (R3) sender with closure: check timer obtained with
SENDING when the EOF is sent; its expiry while awaiting the Finished PDU declares Check Limit
Reached.  (R4) the default fault-handler table ignores checksum failures (keeps the mechanism
alive).  Not decided: that late data arriving before the limit yields an identical file."""
from __future__ import annotations

from ..atsq import ename, mode_of, step_of
from ..core import Ctx, Evidence, Finding, witness_of
from ..values import E
from .retry import PROCS, check_proc, single_comparison, timer_oids


def check(ctx: Ctx, ev: Evidence) -> list[Finding]:
    out: list[Finding] = []
    ev.rule("C13-R1", "entry into check-limit handling (timer with RECEIVING, count 0) and File Data still written in that step", 3)
    ev.rule("C13-R2", "check-limit counter discipline: re-verification per expiry, completion on success, fault exactly at the configured expiry", 5)
    ev.rule("C13-R3", "sender with closure: check timer with SENDING when the EOF is sent; expiry while awaiting Finished declares CHECK_LIMIT_REACHED", 3)
    ev.rule("C13-R4", "default table: FILE_CHECKSUM_FAILURE is ignored", 1)
    dst, src = ctx.ats("dest"), ctx.ats("source")
    h = dst.h
    seen: set[str] = set()

    def once(k: str) -> bool:
        if k in seen:
            return False
        seen.add(k)
        return True

    proc = PROCS["check"]
    for e in dst.edges:
        evs = e.ev
        enter = [i for i, x in enumerate(evs) if x.kind == "store" and x.name == "DestStateWrapper.step" and ename(x.args[0]) == "RECV_FILE_DATA_WITH_CHECK_LIMIT_HANDLING"]
        if enter:
            i = enter[0]
            mode = ename(h.ew(evs[i].watch, "_params.pdu_conf.trans_mode"))
            prov = [x for x in evs if x.kind == "env" and x.name == "check_timer_provider.provide_check_timer"]
            typ = prov[0].args[2] if prov else None
            zero = any(x.kind == "store" and x.name == proc.counter and x.args[0] == 0 for x in evs)
            mismatch = any(x.kind == "env" and x.name.startswith("fault.ignore_cb") and ename(x.args[1]) == "FILE_CHECKSUM_FAILURE" for x in evs[:i])
            ok = mode == "UNACKNOWLEDGED" and typ == E("EntityType", "RECEIVING") and zero and mismatch and len(prov) == 1
            k = f"check-limit step entered in mode {mode}: after an ignored checksum failure={mismatch}, timer type={ename(typ)}, count zeroed={zero}"
            if once(k):
                ev.inst("C13-R1", k, "ok" if ok else "violation", evs[i].site)
                if not ok:
                    out.append(Finding("C13-R1", f"dest handler | check-limit entry | {k[25:140]}", "check-limit handling is not entered with (unacknowledged, ignored checksum failure, RECEIVING timer, zero count)", evs[i].site, witness_of(dst, e)))
        if e.label == ("state_machine", "FD") and step_of(dst, e.pre) == "RECV_FILE_DATA_WITH_CHECK_LIMIT_HANDLING" and e.exc is None:
            wrote = any(x.kind == "env" and x.name == "vfs.write_data" for x in evs)
            k = f"File Data in the check-limit step is written: {wrote}"
            if once(k):
                ev.inst("C13-R1", k, "ok" if wrote else "violation")
                if not wrote:
                    out.append(Finding("C13-R1", "dest handler | File Data dropped in the check-limit step", "late File Data arriving during check-limit handling is not written", "", witness_of(dst, e)))
        if e.label == ("state_machine", "EOF") and step_of(dst, e.pre) == "RECV_FILE_DATA_WITH_CHECK_LIMIT_HANDLING" and e.exc is None:
            handled = any(x.kind == "store" and x.name == "_DestFileParams.file_size_eof" for x in evs)
            k = f"EOF in the check-limit step is handled: {handled}"
            if once(k):
                ev.inst("C13-R1", k, "ok" if handled else "violation")
                if not handled:
                    out.append(Finding("C13-R1", "dest handler | EOF dropped in the check-limit step", "an EOF (e.g. EOF cancel) arriving during check-limit handling is ignored", "", witness_of(dst, e)))
        # "exactly at the limit-th expiry": the count is zeroed and the timer (re)started only when the check-limit step is entered;
        # nothing that happens inside the step - late File Data in particular - restarts the procedure
        # (inputs of the property's quantifier: late File Data and timer expiries; a duplicated EOF is outside it)
        if step_of(dst, e.pre) == "RECV_FILE_DATA_WITH_CHECK_LIMIT_HANDLING" and e.exc is None and e.label in (("state_machine", "FD"), ("state_machine", None)):
            oids0 = timer_oids(dst, e, proc)
            for x in evs:
                if ename(h.ew(x.watch, "states.step")) != "RECV_FILE_DATA_WITH_CHECK_LIMIT_HANDLING":
                    continue
                restart = None
                if x.kind == "store" and x.name == proc.counter and x.args[2] == "set" and x.args[0] == 0:
                    restart = "the check count is set back to 0"
                elif x.kind == "timer" and x.name == "reset" and x.args and x.args[0] in oids0 and not any(y.kind == "timer" and y.name == "expired" and y.args[0] in oids0 for y in evs):
                    restart = "the check timer is restarted without having expired"
                if restart:
                    k = f"inside the check-limit step ({e.label[1] or 'no packet'}): {restart} in {x.func.split('.')[-1]}"
                    if once(k):
                        ev.inst("C13-R2", k, "violation", x.site)
                        out.append(Finding("C13-R2", f"dest handler | check-limit procedure restarted inside the step | {x.func.split('.')[-1]} | input {e.label[1]}",
                                           f"{restart} while the handler is already in check-limit handling: the Check Limit Reached fault is no longer declared at the configured expiry (a trickle of late data postpones it indefinitely)", x.site, witness_of(dst, e)))
        # re-verification on every expiry of the check timer
        oids = timer_oids(dst, e, proc)
        exp = [i for i, x in enumerate(evs) if x.kind == "timer" and x.name == "expired" and x.args[0] in oids]
        for i in exp:
            ctype = ename(h.ew(evs[i].watch, "_params.checksum_type"))
            verified = any(x.kind == "env" and x.name == "vfs.calculate_checksum" for x in evs[i:]) or ctype == "NULL_CHECKSUM"
            k = f"check timer expiry re-verifies the checksum: {verified} (type {ctype})"
            if once(k):
                ev.inst("C13-R2", k, "ok" if verified else "violation", evs[i].site)
                if not verified:
                    out.append(Finding("C13-R2", "dest handler | check timer expiry without re-verification", "a check-timer expiry does not re-verify the file checksum", evs[i].site, witness_of(dst, e)))
            completes = any(x.kind == "store" and x.name == "DestStateWrapper.step" and ename(x.args[0]) == "TRANSFER_COMPLETION" for x in evs[i:])
            fault = any(x.kind == "env" and x.name.startswith("fault.") and ename(x.args[1]) == "CHECK_LIMIT_REACHED" for x in evs[i:])
            inc = any(x.kind == "store" and x.name == proc.counter and x.args[2] == "aug" for x in evs[i:])
            k = f"after an expiry exactly one of (completes, limit fault, count incremented): completes={completes and not fault}, fault={fault}, incremented={inc}"
            if once(k) and e.exc is None:
                good = (int(completes and not fault) + int(fault) + int(inc)) == 1
                ev.inst("C13-R2", k, "ok" if good else "violation", evs[i].site)
                if not good:
                    out.append(Finding("C13-R2", f"dest handler | check expiry outcome | {k[62:]}", "a check-timer expiry neither completes, nor counts, nor declares the limit fault (or does several)", evs[i].site, witness_of(dst, e)))
    check_proc(dst, "C13", "C13-R2", proc, ev, out)
    single_comparison(ctx.prog, "cfdppy.handler.dest", proc, "C13-R2", ev, out)
    # R3 sender
    hs = src.h
    for e in src.edges:
        evs = e.ev
        prov = [x for x in evs if x.kind == "env" and x.name == "check_timer_provider.provide_check_timer"]
        for x in prov:
            typ = x.args[2]
            eof = any(y.kind == "pdu" and y.name == "EOF" for y in evs)
            mode = ename(hs.ew(x.watch, "_params.pdu_conf.trans_mode"))
            closure = hs.ew(x.watch, "_params.closure_requested")
            ok = typ == E("EntityType", "SENDING") and eof and mode == "UNACKNOWLEDGED" and closure is True
            k = f"sender check timer: type={ename(typ)}, with the EOF={eof}, mode={mode}, closure={closure}"
            if once(k):
                ev.inst("C13-R3", k, "ok" if ok else "violation", x.site)
                if not ok:
                    out.append(Finding("C13-R3", f"source handler | check timer | {k[21:140]}", "the sender's check timer is not obtained with SENDING when the EOF of an unacknowledged transfer with closure is sent", x.site, witness_of(src, e)))
        # unack + closure + file: EOF sent => timer obtained
        if any(y.kind == "pdu" and y.name == "EOF" for y in evs) and e.exc is None and mode_of(src, e.post) == "UNACKNOWLEDGED" and step_of(src, e.post) == "WAITING_FOR_FINISHED":
            k = f"unacknowledged EOF sent with closure: check timer obtained: {bool(prov)}"
            if once(k):
                ev.inst("C13-R3", k, "ok" if prov else "violation")
                if not prov:
                    out.append(Finding("C13-R3", "source handler | EOF sent with closure but no check timer", "an unacknowledged transfer with closure awaits the Finished PDU without a check timer", "", witness_of(src, e)))
        w = hs.wget(e.pre, "_params.check_timer")
        if isinstance(w, tuple) and w and w[0] == "obj" and step_of(src, e.pre) == "WAITING_FOR_FINISHED":
            exp = [x for x in evs if x.kind == "timer" and x.name == "expired" and x.args[0] == w[1]]
            if exp:
                fault = any(x.kind == "env" and x.name.startswith("fault.") and ename(x.args[1]) == "CHECK_LIMIT_REACHED" for x in evs)
                fin = e.label == ("state_machine", "FINISHED")
                k = f"sender check timer expired while awaiting Finished (input {e.label[1]}): CHECK_LIMIT_REACHED declared: {fault}"
                if once(k):
                    ev.inst("C13-R3", k, "ok" if fault else "violation", exp[0].site)
                    if not fault:
                        out.append(Finding("C13-R3", "source handler | check timer expiry without the limit fault", "the sender's check timer expires while awaiting the Finished PDU but no Check Limit Reached fault is declared", exp[0].site, witness_of(src, e)))
    # R4
    tab = dict((k.name, v.name) for k, v in dst.h.default_table.items)
    ok = tab.get("FILE_CHECKSUM_FAILURE") == "IGNORE_ERROR"
    ev.inst("C13-R4", f"default handler for FILE_CHECKSUM_FAILURE: {tab.get('FILE_CHECKSUM_FAILURE')}", "ok" if ok else "violation", "src/cfdppy/mib.py")
    if not ok:
        out.append(Finding("C13-R4", "mib | default handler for FILE_CHECKSUM_FAILURE", f"the default fault handler for checksum failures is {tab.get('FILE_CHECKSUM_FAILURE')}: check-limit handling can never start", "src/cfdppy/mib.py"))
    ev.extra["explanation"] = "check-timer, counter, checksum and fault events on every ATS edge of both handlers; the default fault table parsed from mib.py"
    ev.assume("NOT decided: that late data arriving before the limit yields an identical file (C01/C05 cover the gate and the writes)")
    return out

"""C19 - put requests are admitted, parameterised and identified correctly.

(R1) admission: on every ATS edge put_request on a busy handler returns False without any store,
PDU or environment call, and a raised SourceFileDoesNotExist / NoRemoteEntityCfgFound leaves the
handler idle.  (R2) override tables for mode and closure over every combination of request-level
and MIB-level values.  (R3) the remote configuration is looked up with the request's destination
id and the table keys on the id's value for insert and lookup.  (R4) segment length decision
table: derived or configured, the configured one exactly when it is given and smaller.
(R5) every transaction start obtains exactly one value from the sequence-number provider and that
value is the origin of the PDU configuration's sequence number and of the transaction id."""
from __future__ import annotations

import ast

from ..ats import Harness
from ..atsq import cfg_of, ename, state_of, step_of
from ..core import Ctx, Evidence, Finding, witness_of
from ..model import AnalysisError, loc
from ..values import E, Ref, Sym


def check(ctx: Ctx, ev: Evidence) -> list[Finding]:
    out: list[Finding] = []
    prog = ctx.prog
    ev.rule("C19-R1", "put_request on a busy handler: False, no effect; documented raises leave the handler idle", 6)
    ev.rule("C19-R2", "mode and closure come from the request when given, else from the remote configuration (all combinations)", 8)
    ev.rule("C19-R3", "remote configuration looked up with the request's destination id; the table keys on the id's value", 3)
    ev.rule("C19-R4", "segment length is the derived value or the configured one, the latter exactly when given and smaller", 2)
    ev.rule("C19-R5", "exactly one sequence number per transaction start; it is the origin of the PDU sequence number and the transaction id", 2)
    a = ctx.ats("source")
    h = a.h
    seen: set[str] = set()
    for e in a.edges:
        if e.label[0] != "put_request":
            continue
        busy = state_of(a, e.pre) != "IDLE"
        if busy:
            effects = [x for x in e.ev if x.kind in ("store", "pdu", "env", "alloc")]
            ok = e.exc is None and e.ret is False and not effects and e.pre == e.post
            k = f"busy ({step_of(a, e.pre)}) -> " + (f"raises {e.exc.cls}" if e.exc else f"returns {e.ret!r}") + (f", effects: {effects[0].kind}:{effects[0].name}" if effects else ", no effect")
            if k not in seen:
                seen.add(k)
                ev.inst("C19-R1", k, "ok" if ok else "violation")
                if not ok:
                    what = f"{effects[0].kind} {effects[0].name} at {effects[0].site}" if effects else ("raises " + e.exc.cls if e.exc else f"returns {e.ret!r}")
                    out.append(Finding("C19-R1", f"source handler | put_request while busy | {what.split(' at ')[0]}", f"a put request on a busy handler is not refused without effect: {what}",
                                       effects[0].site if effects else "", witness_of(a, e)))
        else:
            if e.exc is not None:
                # "leaves the handler idle AND reusable": nothing of the refused request survives in the per-transaction state
                names = h.WATCH["source"]
                left = sorted({n for n, x, y in zip(names, e.pre, e.post) if x != y and n != "_put_req"}
                              | {x.name for x in e.ev if x.kind == "store" and x.name.startswith("_SourceFileParams.")})
                ok = e.exc.cls in ("SourceFileDoesNotExist", "NoRemoteEntityCfgFound") and state_of(a, e.post) == "IDLE" and not left
                k = f"idle -> raises {e.exc.cls}, handler afterwards {state_of(a, e.post)}" + (f", state left behind by the refused request: {left}" if left else "")
            else:
                ok = e.ret is True and state_of(a, e.post) == "BUSY"
                k = f"idle -> returns {e.ret!r}, handler afterwards {state_of(a, e.post)}"
            if k not in seen:
                seen.add(k)
                ev.inst("C19-R1", k, "ok" if ok else "violation")
                if not ok:
                    out.append(Finding("C19-R1", f"source handler | put_request while idle | {k}", f"put request on an idle handler: {k}", e.exc.site if e.exc else "", witness_of(a, e)))
            # R2 on accepted requests
            if e.exc is None and e.ret is True:
                rm, rc = cfg_of(e, "req.trans_mode"), cfg_of(e, "req.closure_requested")
                dm, dc = cfg_of(e, "remote_cfg.default_transmission_mode"), cfg_of(e, "remote_cfg.closure_requested")
                gm = h.wget(e.post, "_params.pdu_conf.trans_mode")
                gc = h.wget(e.post, "_params.closure_requested")
                for what, req, dflt, got in (("mode", rm, dm, gm), ("closure", rc, dc, gc)):
                    if req == "<untested>":
                        k = f"{what}: request value never read -> {ename(got)}"
                        okk = False
                    elif req is not None:
                        okk = got == req
                        k = f"{what}: request={ename(req)} mib={ename(dflt)} -> {ename(got)}"
                    else:
                        okk = dflt != "<untested>" and got == dflt
                        k = f"{what}: request=None mib={ename(dflt)} -> {ename(got)}"
                    if k not in seen:
                        seen.add(k)
                        ev.inst("C19-R2", k, "ok" if okk else "violation")
                        if not okk:
                            out.append(Finding("C19-R2", f"source handler | {k}", f"transmission {what} of an accepted put request: {k}", "src/cfdppy/handler/source.py", witness_of(a, e)))
                # R3
                for x in e.ev:
                    if x.kind == "env" and x.name == "remote_cfg_table.get_cfg":
                        okk = x.args[0] == Sym(("a", "req.destination_id"))
                        k = f"get_cfg({x.args[0]!r})"
                        if k not in seen:
                            seen.add(k)
                            ev.inst("C19-R3", k, "ok" if okk else "violation", x.site)
                            if not okk:
                                out.append(Finding("C19-R3", f"source handler | put_request | {k}", "the remote configuration is not looked up with the request's destination id", x.site))
    # table keys on .value
    tq = "cfdppy.mib.RemoteEntityCfgTable"
    tci = prog.classes.get(tq)
    if tci is None:
        raise AnalysisError("RemoteEntityCfgTable not found")
    for name in ("add_config", "add_configs"):
        fi = tci.methods.get(name)
        if fi is None:
            raise AnalysisError(f"RemoteEntityCfgTable.{name} not found")
        ups = [n for n in ast.walk(fi.node) if isinstance(n, ast.Call) and isinstance(n.func, ast.Attribute) and n.func.attr == "update"]
        okk = bool(ups) and all(isinstance(u.args[0], ast.Dict) and ast.unparse(u.args[0].keys[0]).endswith(".entity_id.value") for u in ups)
        ev.inst("C19-R3", f"{name} inserts under entity_id.value", "ok" if okk else "violation", loc(fi, fi.node))
        if not okk:
            out.append(Finding("C19-R3", f"{tq}.{name} | key", "configurations are not inserted under the entity id's value", loc(fi, fi.node)))
    fi = tci.methods.get("get_cfg")
    gets = [n for n in ast.walk(fi.node) if isinstance(n, ast.Call) and isinstance(n.func, ast.Attribute) and n.func.attr == "get"] if fi else []
    okk = len(gets) == 1 and ast.unparse(gets[0].args[0]) == "remote_entity_id.value"
    ev.inst("C19-R3", "get_cfg looks up remote_entity_id.value", "ok" if okk else "violation")
    if not okk:
        out.append(Finding("C19-R3", f"{tq}.get_cfg | key", "configurations are not looked up under the entity id's value", "src/cfdppy/mib.py"))
    # R4/R5: focused run keeping the origin terms of the relevant fields
    hk = Harness(prog, "source", keep_terms={"_SourceFileParams.segment_len", "PduConfig.transaction_seq_num", "_TransferFieldWrapper.transaction_id"})
    rets, _ = hk.run(hk.node0, ("put_request", "file"))
    results = []
    for _, s in rets[:4]:
        r2, _x = hk.run(s, ("state_machine", None))
        results += [s2 for _, s2 in r2]
    if not results:
        raise AnalysisError("C19-R4: transaction start produced no result")
    segs = {}
    for s in results:
        v = hk.read_term(s, "_params.fp.segment_len")
        segs.setdefault(repr(v), s)
    derived = [k for k in segs if "get_max_file_seg_len_for_max_packet_len_and_pdu_cfg" in k]
    configured = [k for k in segs if k == "remote_cfg.max_file_segment_len"]
    other = [k for k in segs if k not in derived + configured]
    ev.inst("C19-R4", f"segment length outcomes: {sorted(segs)}", "ok" if derived and configured and not other else "violation")
    if other or not derived or not configured:
        out.append(Finding("C19-R4", f"source handler | segment length outcomes {sorted(segs)[:3]}", f"segment length is not one of (derived, configured): {sorted(segs)}", "src/cfdppy/handler/source.py"))
    for k in configured:
        s = segs[k]
        lt = [c for c in s.ch.items() if c[0][0] == "ge" and "remote_cfg.max_file_segment_len" in repr(c[0]) and "get_max_file_seg_len" in repr(c[0])]
        # configured chosen only under `configured < derived`: the recorded comparison must say derived - configured >= 1
        okk = False
        for (tag, form, kk), val in lt:
            coefs = {repr(a_): c_ for a_, c_ in form}
            d = [c_ for a_, c_ in coefs.items() if "get_max_file_seg_len" in a_]
            c = [c_ for a_, c_ in coefs.items() if "remote_cfg.max_file_segment_len" in a_]
            if d and c and d[0] == -c[0]:
                # form = sign*(derived - configured); truth of (form >= kk)
                sign = d[0]
                if (sign == 1 and kk == 1 and val is True) or (sign == -1 and kk == 0 and val is False):
                    okk = True
        ev.inst("C19-R4", "configured length chosen only under configured < derived", "ok" if okk else "violation")
        if not okk:
            out.append(Finding("C19-R4", "source handler | configured segment length not guarded by `configured < derived`", "the configured maximum segment length is chosen although it is not smaller than the derived one", "src/cfdppy/handler/source.py"))
    n_calls = set()
    modified: set = set()
    okk = True
    for s in results:
        calls = [x for x in s.ev if x.kind == "env" and x.name == "seq_num_provider.get_and_increment"]
        n_calls.add(len(calls))
        seq = repr(hk.read_term(s, "_params.pdu_conf.transaction_seq_num"))
        tid = repr(hk.read_term(s, "_params.transaction_id"))
        why = _seq_value_modified(seq)
        if why:
            modified.add(why)
        if len(calls) != 1 or "seq_num_provider.get_and_increment" not in seq or "seq_num_provider.get_and_increment" not in tid:
            okk = False
    ev.inst("C19-R5", f"get_and_increment calls per transaction start: {sorted(n_calls)}", "ok" if n_calls == {1} else "violation")
    ev.inst("C19-R5", "PDU sequence number and transaction id originate from that value", "ok" if okk else "violation")
    if n_calls != {1}:
        out.append(Finding("C19-R5", f"source handler | get_and_increment called {sorted(n_calls)} times per transaction start", "a transaction start does not obtain exactly one sequence number", "src/cfdppy/handler/source.py"))
    elif not okk:
        out.append(Finding("C19-R5", "source handler | sequence number origin", "the PDU sequence number or the transaction id does not originate from the value obtained from the provider", "src/cfdppy/handler/source.py"))
    # R5b: the value is taken over as obtained (or reduced modulo 2**width, the identity on the provider's range): any other
    # arithmetic on it changes the identifier for some provider value
    ev.inst("C19-R5", "PDU sequence number is the provider's value itself (or that value mod 2**width)", "violation" if modified else "ok")
    for why in sorted(modified):
        out.append(Finding("C19-R5", "source handler | sequence number value modified", f"the PDU sequence number is not the value obtained from the provider: {why}", "src/cfdppy/handler/source.py"))
    # no other call site of the provider
    for e in a.edges:
        for x in e.ev:
            if x.kind == "env" and x.name == "seq_num_provider.get_and_increment" and not (
                    e.exc is not None or any(y.kind == "env" and y.name == "user.transaction_indication" for y in e.ev)):
                out.append(Finding("C19-R5", f"source handler | provider consulted on a {e.label[0]} edge that does not start a transaction", "the sequence-number provider is consulted outside the transaction start", x.site))
    ev.extra["explanation"] = "every put_request edge of the source handler's ATS (request mode/closure x MIB mode/closure x handler state), syntax-tree check of the configuration table keys, and a focused abstract run of the transaction start keeping origin terms"
    return out


def _seq_value_modified(term: str):
    """Origin term of PduConfig.transaction_seq_num, e.g.
    ByteFieldGenerator.from_int(floordiv(seq_num_provider.max_bit_width, 8), seq_num_provider.get_and_increment(0)).
    Returns a description when the value argument is the provider's value under arithmetic other than `mod 2**width`,
    None when it is the value itself, an accepted identity, or a shape this rule does not know (then only the
    containment rule above decides)."""
    import ast as _ast
    try:
        tree = _ast.parse(term, mode="eval").body
    except SyntaxError:
        return None

    def dotted(n):
        if isinstance(n, _ast.Name):
            return n.id
        if isinstance(n, _ast.Attribute):
            b = dotted(n.value)
            return None if b is None else b + "." + n.attr
        return None

    def is_provider(n):
        return isinstance(n, _ast.Call) and dotted(n.func) == "seq_num_provider.get_and_increment"

    def is_width(n):
        return dotted(n) == "seq_num_provider.max_bit_width"

    def const(n, v):
        return isinstance(n, _ast.Constant) and n.value == v

    def is_pow2width(n):
        if isinstance(n, _ast.Call) and dotted(n.func) == "pow" and len(n.args) == 2:
            return const(n.args[0], 2) and is_width(n.args[1])
        if isinstance(n, _ast.Call) and dotted(n.func) == "lshift" and len(n.args) == 2:
            return const(n.args[0], 1) and is_width(n.args[1])
        if isinstance(n, _ast.BinOp) and isinstance(n.op, _ast.Pow):
            return const(n.left, 2) and is_width(n.right)
        if isinstance(n, _ast.BinOp) and isinstance(n.op, _ast.LShift):
            return const(n.left, 1) and is_width(n.right)
        return False

    ARITH = {"mod", "add", "sub", "mul", "floordiv", "truediv", "and_", "or_", "xor", "lshift", "rshift", "bitand", "bitor", "bitxor", "neg", "invert"}

    def verdict(v):
        if is_provider(v):
            return None
        if isinstance(v, _ast.Call) and dotted(v.func) == "int" and len(v.args) == 1:
            return verdict(v.args[0])
        name = dotted(v.func) if isinstance(v, _ast.Call) else None
        if name == "mod" and len(v.args) == 2 and is_provider(v.args[0]) and is_pow2width(v.args[1]):
            return None
        if isinstance(v, _ast.BinOp) and isinstance(v.op, _ast.Mod) and is_provider(v.left) and is_pow2width(v.right):
            return None
        arith = (name in ARITH) or isinstance(v, (_ast.BinOp, _ast.UnaryOp))
        if arith and any(is_provider(x) for x in _ast.walk(v)):
            return _ast.unparse(v)
        return None

    for n in _ast.walk(tree):
        if isinstance(n, _ast.Call) and (dotted(n.func) or "").endswith("from_int") and len(n.args) == 2:
            return verdict(n.args[1])
    return None

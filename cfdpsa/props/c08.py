"""C08 - retransmissions deliver exactly the requested data and nothing else (structural clauses).

(R1) both ends of every segment request are validated against each other and against the progress
before anything is re-sent (syntax tree: the three comparisons guarding InvalidNakPdu; ATS: no
retransmitted PDU on an edge that raises InvalidNakPdu);  (R2) the chunking loop is a recognised
tiling idiom (cursor/remaining, cursor/end or for-range) over exactly [start, end);  (R3) resume
exactly: the retransmission path stores neither progress, file size nor the EOF condition; it saves
the current step and the next call restores it;  (R4) a (0,0) request re-sends the Metadata PDU
built by the function the metadata step uses;  (R5) retransmitted File Data PDUs carry what was
read at their own offset."""
from __future__ import annotations

import ast

from ..astq import guards_of
from ..atsq import ename, step_of
from ..core import Ctx, Evidence, Finding, witness_of
from ..model import AnalysisError, loc, norm
from ..values import Pdu

SRC = "cfdppy.handler.source.SourceHandler"


def _idx(e: ast.expr, var: str) -> int | None:
    if isinstance(e, ast.Subscript) and isinstance(e.value, ast.Name) and e.value.id == var and isinstance(e.slice, ast.Constant):
        return e.slice.value
    return None


def tiling_idiom(fn: ast.FunctionDef, req: str, bounds: tuple[str, str] | None = None) -> tuple[bool, str]:
    """recognises the three tiling idioms over [req[0], req[1]) (or over [bounds[0], bounds[1]) when the loop lives in a
    helper that receives the two offsets as separate parameters) with step segment_len"""
    loops = [n for n in ast.walk(fn) if isinstance(n, (ast.While, ast.For))]
    if len(loops) != 1:
        return False, f"{len(loops)} loops"
    lp = loops[0]
    src = {ast.unparse(s.targets[0]): ast.unparse(s.value) for s in ast.walk(fn) if isinstance(s, ast.Assign) and len(s.targets) == 1 and isinstance(s.targets[0], ast.Name) and s.lineno < lp.lineno}
    start, end = bounds if bounds else (f"{req}[0]", f"{req}[1]")
    calls = [n for n in ast.walk(lp) if isinstance(n, ast.Call) and isinstance(n.func, ast.Attribute) and isinstance(n.func.value, ast.Name) and n.func.value.id == "self"
             and len(n.args) == 2 and not n.keywords]
    if len(calls) != 1 or len(calls[0].args) != 2:
        return False, "the loop does not build exactly one File Data PDU per iteration from (cursor, chunk)"
    cur, chunk = ast.unparse(calls[0].args[0]), ast.unparse(calls[0].args[1])
    mins = {ast.unparse(s.targets[0]): s.value for s in lp.body if isinstance(s, ast.Assign) and isinstance(s.value, ast.Call) and ast.unparse(s.value.func) == "min"}
    if chunk not in mins:
        return False, f"chunk `{chunk}` is not computed with min(...)"
    margs = {ast.unparse(a) for a in mins[chunk].args}
    seg = next((a for a in margs if a.endswith("segment_len")), None)
    if seg is None or len(margs) != 2:
        return False, f"chunk is min({', '.join(sorted(margs))}), not min(<rest>, segment_len)"
    rest = (margs - {seg}).pop()
    augs = {ast.unparse(s.target): (type(s.op).__name__, ast.unparse(s.value)) for s in lp.body if isinstance(s, ast.AugAssign)}
    if isinstance(lp, ast.While):
        test = ast.unparse(lp.test)
        if test == f"{rest} > 0" and src.get(rest) in (f"{end} - {start}",) and src.get(cur) == start:
            ok = augs.get(cur) == ("Add", chunk) and augs.get(rest) == ("Sub", chunk)
            return ok, "cursor/remaining idiom" if ok else "cursor/remaining idiom but cursor/remaining are not advanced by exactly the chunk"
        if test in (f"{cur} < {end}",) and src.get(cur) == start and rest == f"{end} - {cur}":
            ok = augs.get(cur) == ("Add", chunk)
            return ok, "cursor/end idiom" if ok else "cursor/end idiom but the cursor is not advanced by exactly the chunk"
        return False, f"while-loop `{test}` with chunk min({rest}, {seg}) is not a tiling of [{start}, {end})"
    it = ast.unparse(lp.iter)
    if ast.unparse(lp.target) == cur and it.replace(" ", "") == f"range({start},{end},{seg})".replace(" ", "") and rest == f"{end} - {cur}":
        return True, "for-range idiom"
    return False, f"for-loop over `{it}` with chunk min({rest}, {seg}) is not a tiling of [{start}, {end})"


def check(ctx: Ctx, ev: Evidence) -> list[Finding]:
    out: list[Finding] = []
    prog = ctx.prog
    ev.rule("C08-R1", "every segment request is validated (end >= start, start <= progress, end <= progress) before anything is re-sent", 4)
    ev.rule("C08-R2", "the retransmission chunking loop tiles exactly [start, end) in steps of at most the segment length (recognised idiom)", 1)
    ev.rule("C08-R3", "retransmission stores neither progress, file size nor EOF condition; the interrupted step is saved and restored by the next call", 6)
    ev.rule("C08-R4", "(0,0) re-sends the Metadata PDU through the metadata step's own builder", 1)
    ev.rule("C08-R5", "a retransmitted File Data PDU carries what was read at its own offset with the chunk length", 1)
    # ---- R1 syntax tree
    # anchor by content: the function of the source handler that casts the inserted packet to a NAK PDU
    entries = [f for f in prog.functions.values() if f.cls == SRC and any(isinstance(n, ast.Call) and isinstance(n.func, ast.Attribute) and n.func.attr == "to_nak_pdu" for n in ast.walk(f.node))]
    if len(entries) != 1:
        raise AnalysisError(f"NAK servicing entry not found ({len(entries)} functions call to_nak_pdu)")
    hr = entries[0]
    from ..astq import CallGraph
    cg = CallGraph(prog)
    reach = cg.reachable([hr.qualname])
    pairs: set[frozenset] = set()
    for q in sorted(reach):
        fi = prog.functions.get(q)
        if fi is None:
            continue  # (any repo function reachable from the NAK entry: the validation may live in a shared helper module)
        for n in ast.walk(fi.node):
            if not isinstance(n, ast.If):
                continue
            raises = [r for r in n.body if isinstance(r, ast.Raise) and "InvalidNakPdu" in ast.unparse(r)]
            if not raises or not isinstance(n.test, ast.Compare) or len(n.test.ops) != 1:
                continue
            sides = [n.test.left, n.test.comparators[0]]
            desc = []
            for s in sides:
                txt = ast.unparse(s)
                if isinstance(s, ast.Subscript) and isinstance(s.slice, ast.Constant):
                    desc.append(f"req[{s.slice.value}]")
                elif txt.endswith("progress"):
                    desc.append("progress")
                else:
                    desc.append(txt)
            pairs.add(frozenset(desc))
            ev.inst("C08-R1", f"{fi.name}: `{ast.unparse(n.test)}` raises InvalidNakPdu", "ok", loc(fi, n))
    need = [frozenset({"req[0]", "req[1]"}), frozenset({"req[0]", "progress"}), frozenset({"req[1]", "progress"})]
    for nd in need:
        ok = nd in pairs
        ev.inst("C08-R1", f"comparison of {' and '.join(sorted(nd))} guards the retransmission", "ok" if ok else "violation")
        if not ok:
            out.append(Finding("C08-R1", f"source handler | segment request validation | no comparison of {' and '.join(sorted(nd))}",
                               f"a NAK segment request is served without comparing {' and '.join(sorted(nd))}: data outside the sent range can be re-sent", loc(hr, hr.node)))
    # ---- R3 (syntax-tree part): nothing reachable from the NAK entry mutates an object of the per-transaction parameter block
    # in place (running digests, accumulators, lists): what a retransmission feeds into such an object changes the EOF or the
    # continuation although no field is re-assigned
    from ..astq import MUTATING_METHODS, expand_local_aliases
    n_mut = 0
    for q in sorted(reach):
        fi = prog.functions.get(q)
        if fi is None or fi.cls != SRC:
            continue
        for n in ast.walk(expand_local_aliases(fi.node)):
            if isinstance(n, ast.Call) and isinstance(n.func, ast.Attribute) and n.func.attr in MUTATING_METHODS | {"update"}:
                recv = ast.unparse(n.func.value)
                if recv.startswith("self._params."):
                    n_mut += 1
                    ev.inst("C08-R3", f"{fi.name}: `{norm(n)[:70]}` mutates per-transaction state on a path shared with retransmission", "violation", loc(fi, n))
                    out.append(Finding("C08-R3", f"source handler | in-place mutation of per-transaction state reachable from NAK servicing | {recv}.{n.func.attr}",
                                       f"`{norm(n)[:90]}` in {fi.name} is reachable from the NAK servicing entry: a retransmission feeds the same object as the original transmission (the EOF derived from it changes)", loc(fi, n)))
    ev.inst("C08-R3", f"functions reachable from the NAK entry: {len(reach)}; in-place mutations of parameter-block objects among them: {n_mut}", "ok" if n_mut == 0 else "violation")
    # ---- R2 idiom
    # anchor by content: functions reachable from the NAK entry that loop and take the segment request as parameter
    loopers = []
    for q in sorted(reach):
        f = prog.functions.get(q)
        if f is None or f.cls != SRC or f is hr or len(f.params) < 2:
            continue
        if any(isinstance(n, (ast.While, ast.For)) for n in ast.walk(f.node)) and any(
                isinstance(n, ast.Subscript) and isinstance(n.value, ast.Name) and n.value.id == f.params[1] for n in ast.walk(f.node)):
            loopers.append((f, None))
    if not loopers:
        # the loop may have been extracted into a helper that receives the request's two offsets as separate parameters
        for q in sorted(reach):
            g = prog.functions.get(q)
            if g is None or g.cls != SRC:
                continue
            for c in [n for n in ast.walk(g.node) if isinstance(n, ast.Call) and isinstance(n.func, ast.Attribute) and ast.unparse(n.func.value) == "self" and len(n.args) == 2]:
                a0, a1 = c.args
                if isinstance(a0, ast.Subscript) and isinstance(a1, ast.Subscript) and ast.unparse(a0.value) == ast.unparse(a1.value) \
                        and ast.unparse(a0.slice) == "0" and ast.unparse(a1.slice) == "1":
                    callee = prog.functions.get(f"{SRC}.{c.func.attr}")
                    if callee is not None and len(callee.params) == 3 and any(isinstance(n, (ast.While, ast.For)) for n in ast.walk(callee.node)):
                        loopers.append((callee, (callee.params[1], callee.params[2])))
    if not loopers:
        raise AnalysisError("no chunking loop over a segment request found behind the NAK servicing entry")
    for hs, bounds in loopers:
        req = hs.params[1]
        ok, why = tiling_idiom(hs.node, req, bounds)
        ev.inst("C08-R2", f"{hs.name}: {why}", "ok" if ok else "violation", loc(hs, hs.node))
        if not ok:
            out.append(Finding("C08-R2", f"{hs.qualname} | chunking loop | {why[:100]}", f"the retransmission loop is not a tiling of the requested range: {why}", loc(hs, hs.node)))
    # ---- ATS rules
    a = ctx.ats("source")
    h = a.h
    seen: set[str] = set()

    def rep(rule: str, k: str, ok: bool, msg: str, e, site: str = "") -> None:
        if (k, ok) in seen:
            return  # an earlier ok never masks a violation of the same key
        seen.add((k, ok))
        ev.inst(rule, k, "ok" if ok else "violation", site)
        if not ok:
            out.append(Finding(rule, f"source handler | {k[:150]}", msg, site, witness_of(a, e)))

    md_sites = {x.site for e in a.edges if e.label != ("state_machine", "NAK") for x in e.ev if x.kind == "pdu" and x.name == "METADATA"}
    for e in a.edges:
        evs = e.ev
        if e.label == ("state_machine", "NAK"):
            retr = [i for i, x in enumerate(evs) if x.kind == "store" and x.name == "SourceStateWrapper.step" and ename(x.args[0]) == "RETRANSMITTING"]
            if e.exc is not None and e.exc.cls == "InvalidNakPdu":
                # nothing re-sent before the rejection (an EOF emitted by the regular advancement earlier in the call is not a retransmission)
                bad = [x for x in evs if x.kind == "pdu" and x.name in ("FD", "METADATA") and step_of(a, e.pre) != "TRANSACTION_START"]
                bad = [x for x in bad if not (x.name == "METADATA" and ename(h.ew(x.watch, "states.step")) == "SENDING_METADATA")]
                rep("C08-R1", f"InvalidNakPdu raised with {len(bad)} retransmitted PDUs already built", not bad, "an invalid NAK is rejected after part of it was already re-sent", e, e.exc.site)
                continue
            if not retr:
                continue
            i = retr[0]
            # R3: stores on the retransmission path
            first_re = next((j for j, y in enumerate(evs) if y.kind == "env" and y.name == "vfs.read_data" and "pkt.segment_requests" in repr(y.args[1])), None)
            first_md = next((j for j, y in enumerate(evs) if y.kind == "pdu" and y.name == "METADATA"), None)
            begin = min([j for j in (first_re, first_md) if j is not None], default=i)
            bad = [x for x in evs[begin:i + 1] if x.kind == "store" and x.name in ("_SourceFileParams.progress", "_SourceFileParams.file_size", "_TransferFieldWrapper.cond_code_eof")]
            rep("C08-R3", f"retransmission path stores to progress / file size / EOF condition: {[x.name for x in bad][:2]}", not bad,
                f"serving a NAK modifies {bad[0].name if bad else ''}: the source does not resume where it was", e, bad[0].site if bad else "")
            saved = [x for x in evs[:i + 1] if x.kind == "store" and x.name == "_AckedModeParams.step_before_retransmission"]
            step_then = ename(h.ew(evs[i - 1].watch, "states.step")) if i > 0 else step_of(a, e.pre)
            at = ename(h.ew(saved[-1].watch, "states.step")) if saved else None
            ok = bool(saved) and ename(saved[-1].args[0]) == at
            rep("C08-R3", f"NAK handled in step {at}: interrupted step saved = {ename(saved[-1].args[0]) if saved else 'NOT SAVED'}", ok,
                f"the step interrupted by the retransmission ({step_then}) is not saved (saved: {ename(saved[-1].args[0]) if saved else None})", e, evs[i].site)
            # R4/R5 on the retransmitted PDUs
            for j, x in enumerate(evs):
                if x.kind == "pdu" and x.name == "METADATA":
                    same_builder = x.site in md_sites
                    rep("C08-R4", f"Metadata re-sent by the metadata step's own builder: {same_builder}", same_builder, "a (0,0) request re-sends a Metadata PDU built by other code than the original one", e, x.site)
                if x.kind == "pdu" and x.name == "FD":
                    p: Pdu = x.args[0]
                    rd = [y for y in evs[:j] if y.kind == "env" and y.name == "vfs.read_data"]
                    ok5 = bool(rd) and rd[-1].args[1] == p.get("offset") and "vfs.read_data" in repr(p.get("file_data"))
                    ln = repr(rd[-1].args[2]) if rd else "?"
                    ok5 = ok5 and ln.startswith("min(") and "segment_len" in ln
                    rep("C08-R5", f"retransmitted File Data: offset == read offset and length = min(.., segment_len): {ok5}", ok5,
                        f"a retransmitted File Data PDU does not carry the data read at its own offset with a chunk bounded by the segment length (read length {ln[:80]})", e, x.site)
        # restore: first step store when leaving RETRANSMITTING
        if step_of(a, e.pre) == "RETRANSMITTING" and e.label[0] == "state_machine" and not h.wget(e.pre, "_pdus_to_be_sent"):
            st = [x for x in evs if x.kind == "store" and x.name == "SourceStateWrapper.step"]
            want = ename(h.wget(e.pre, "_params.ack_params.step_before_retransmission"))
            if e.exc is not None and not st:
                continue
            ok = bool(st) and ename(st[0].args[0]) == want
            rep("C08-R3", f"leaving RETRANSMITTING restores the saved step {want}: {ok}", ok, f"after a retransmission the step becomes {ename(st[0].args[0]) if st else None} instead of the saved {want}", e, st[0].site if st else "")
    # the saved step is consumed only while RETRANSMITTING (syntax tree): every read of it is guarded by step == RETRANSMITTING
    for adv in [f for f in prog.functions.values() if f.cls == SRC]:
        for n in ast.walk(adv.node):
            if isinstance(n, ast.Assign) and "step_before_retransmission" in ast.unparse(n.value):
                g = [ast.unparse(x) for x, pol in guards_of(adv.node, n) if pol]
                ok = any("RETRANSMITTING" in x for x in g)
                ev.inst("C08-R3", f"saved step restored only under {g}", "ok" if ok else "violation", loc(adv, n))
                if not ok:
                    out.append(Finding("C08-R3", f"{adv.qualname} | restore not guarded by the RETRANSMITTING step", "the saved step is restored although no retransmission is in progress", loc(adv, n)))
    ev.extra["explanation"] = "syntax-tree validation and tiling-idiom rules on the NAK servicing functions; every NAK edge and every edge leaving the RETRANSMITTING step of the source handler's ATS"
    ev.assume("NOT decided: that the bytes re-sent equal the file's bytes (filestore read semantics, C17-R4)")
    return out

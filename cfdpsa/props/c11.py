"""C11 - transactions are isolated from earlier transactions and from other handler instances.

Decided: (R1) no mutable object is shared through a dataclass default, class attribute, default
argument or mutated module-level container; (R3) no method stores to class attributes or module
globals; (R2) for every per-transaction parameter block the state after the reset path equals the
state of a freshly constructed block on every field that is read before it is written in the next
transaction (abstract comparison + stale-read taint through the interpreter).
Not decided: the differential "same observable trace as a fresh handler" itself."""
from __future__ import annotations

import ast

from ..astq import iter_funcs
from ..core import Ctx, Evidence, Finding
from ..model import AnalysisError, loc, norm

IMMUTABLE_CTORS = {"Path", "PurePath", "PurePosixPath", "frozenset", "tuple", "timedelta", "bytes", "str", "int", "float", "bool",
                   "getLogger", "logging.getLogger", "TypeVar", "namedtuple", "Decimal", "Fraction", "UnsignedByteField", "ByteFieldU8",
                   "ByteFieldU16", "ByteFieldU32", "ByteFieldEmpty", "re.compile", "struct.Struct"}
MUTATORS = {"append", "appendleft", "extend", "insert", "pop", "popleft", "remove", "clear", "update", "setdefault", "add", "discard",
            "popitem", "sort", "reverse"}


def _mutable_expr(e: ast.expr) -> str | None:
    if isinstance(e, (ast.List, ast.Dict, ast.Set, ast.ListComp, ast.DictComp, ast.SetComp)):
        return "mutable literal"
    if isinstance(e, ast.Call):
        f = ast.unparse(e.func)
        if f in IMMUTABLE_CTORS or f.split(".")[-1] in IMMUTABLE_CTORS:
            return None
        return f"instance created once by {f}(...)"
    return None


USER_OWNED_ROOTS = ("self._put_req", "self.cfg", "self.user", "self.remote_cfg_table", "self.check_timer_provider", "self.seq_num_provider")


def _caller_owned_mutation(prog, ev: Evidence) -> list[Finding]:
    """C11-R1f: objects handed in by the user (put request, configuration, tables) are read, never mutated in place: a local
    bound to (part of) such an object - also through `x or []` / conditional expressions - that is later mutated changes the
    caller's object, which the next transaction or a sibling handler given the same object then sees."""
    ev.rule("C11-R1f", "no in-place mutation of an object reachable from the put request or the user-supplied configuration objects", 2)
    out: list[Finding] = []
    n_fn = 0
    for fi in iter_funcs(prog, ["cfdppy.handler.source", "cfdppy.handler.dest", "cfdppy.handler.common"]):
        n_fn += 1
        owned: dict[str, str] = {}

        def roots_in(e: ast.AST) -> str | None:
            cands = [e]
            if isinstance(e, ast.BoolOp):
                cands = list(e.values)
            elif isinstance(e, ast.IfExp):
                cands = [e.body, e.orelse]
            for c in cands:
                t = ast.unparse(c)
                if isinstance(c, (ast.Attribute, ast.Subscript)) and any(t.startswith(r + ".") for r in USER_OWNED_ROOTS):
                    return t
                if isinstance(c, ast.Name) and c.id in owned:
                    return owned[c.id]
            return None

        for n in sorted((x for x in ast.walk(fi.node) if isinstance(x, (ast.Assign, ast.AnnAssign, ast.Expr, ast.AugAssign, ast.Delete))), key=lambda x: (x.lineno, x.col_offset)):
            if isinstance(n, (ast.Assign, ast.AnnAssign)) and getattr(n, "value", None) is not None:
                tg = n.targets if isinstance(n, ast.Assign) else [n.target]
                r = roots_in(n.value)
                for t in tg:
                    if isinstance(t, ast.Name):
                        if r:
                            owned[t.id] = r
                        else:
                            owned.pop(t.id, None)
                    elif isinstance(t, ast.Subscript) and (roots_in(t.value) is not None):
                        out.append(Finding("C11-R1f", f"{fi.qualname} | item store into {roots_in(t.value)}", f"`{norm(n)[:80]}` stores into an object owned by the caller ({roots_in(t.value)})", loc(fi, n)))
            elif isinstance(n, ast.Expr) and isinstance(n.value, ast.Call) and isinstance(n.value.func, ast.Attribute) and n.value.func.attr in MUTATORS:
                r = roots_in(n.value.func.value)
                if r:
                    out.append(Finding("C11-R1f", f"{fi.qualname} | {n.value.func.attr} on {r}", f"`{norm(n)[:80]}` mutates in place an object owned by the caller ({r}): the next use of the same request/configuration object sees the change", loc(fi, n)))
            elif isinstance(n, ast.AugAssign):
                base = n.target.value if isinstance(n.target, ast.Subscript) else n.target
                r = roots_in(base) if isinstance(base, (ast.Name, ast.Attribute)) and not (isinstance(base, ast.Attribute) and ast.unparse(base).startswith(("self._params", "self.states"))) else None
                if r and isinstance(base, ast.Name):
                    out.append(Finding("C11-R1f", f"{fi.qualname} | augmented assignment on {r}", f"`{norm(n)[:80]}` extends in place an object owned by the caller ({r})", loc(fi, n)))
    ev.inst("C11-R1f", f"{n_fn} handler functions scanned: in-place mutations of caller-owned objects: {len(out)}", "ok" if not out else "violation")
    ev.inst("C11-R1f", f"roots treated as caller-owned: {', '.join(USER_OWNED_ROOTS)}", "ok")
    return out


def check(ctx: Ctx, ev: Evidence) -> list[Finding]:
    prog = ctx.prog
    out: list[Finding] = []
    ev.rule("C11-R1a", "dataclass field defaults: no `field(default=<call or mutable literal>)` and no bare call/mutable default (shared by every instance)", 20)
    ev.rule("C11-R1b", "class-level attributes of non-enum classes are not bound to mutable objects", 0)
    ev.rule("C11-R1c", "no mutable default arguments", 100)
    ev.rule("C11-R1d", "no module-level container is mutated by a function", 1)
    ev.rule("C11-R3", "no function stores to a class attribute or module global", 100)
    ev.rule("C11-R2", "reset path == fresh block on every field read before written (see c11 reset analysis)", 10)
    for ci in prog.classes.values():
        if ci.is_enum:
            continue
        for k, (ann, d) in ci.fields.items():
            if d is None:
                continue
            why = None
            if isinstance(d, ast.Call) and ast.unparse(d.func) in ("field", "dataclasses.field"):
                kw = {x.arg: x.value for x in d.keywords}
                if "default" in kw:
                    why = _mutable_expr(kw["default"])
            else:
                why = _mutable_expr(d)
            key = f"{ci.qualname}.{k}"
            ev.inst("C11-R1a", key, "violation" if why else "ok", f"{prog.modules[ci.module].path}:{d.lineno}")
            if why:
                out.append(Finding("C11-R1a", key, f"default of {ci.name}.{k} is one {why} shared by every instance of the class (use default_factory)",
                                   f"{prog.modules[ci.module].path}:{d.lineno}"))
        for k, v in ci.class_attrs.items():
            why = _mutable_expr(v)
            key = f"{ci.qualname}.{k}"
            ev.inst("C11-R1b", key, "violation" if why else "ok", f"{prog.modules[ci.module].path}:{v.lineno}")
            if why:
                out.append(Finding("C11-R1b", key, f"class attribute {ci.name}.{k} is a {why} shared by every instance", f"{prog.modules[ci.module].path}:{v.lineno}"))
    module_containers: dict[tuple[str, str], ast.expr] = {}
    for mi in prog.modules.values():
        for k, v in mi.globals_.items():
            if isinstance(v, (ast.List, ast.Dict, ast.Set)) or (isinstance(v, ast.Call) and ast.unparse(v.func) in ("list", "dict", "set", "deque", "defaultdict", "collections.deque", "collections.defaultdict", "OrderedDict")):
                module_containers[(mi.name, k)] = v
    mutated: dict[tuple[str, str], str] = {}
    for fi in iter_funcs(prog):
        a = fi.node.args
        for d in list(a.defaults) + [x for x in a.kw_defaults if x is not None]:
            why = _mutable_expr(d)
            key = f"{fi.qualname} | default {ast.unparse(d)[:40]}"
            ev.inst("C11-R1c", key, "violation" if why else "ok", loc(fi, d))
            if why:
                out.append(Finding("C11-R1c", key, f"default argument is a {why} shared by every call", loc(fi, d)))
        if not a.defaults and not a.kw_defaults:
            ev.inst("C11-R1c", f"{fi.qualname} | no defaults", "ok")
        local_names = {x.arg for x in a.args + a.kwonlyargs + a.posonlyargs}
        for n in ast.walk(fi.node):
            if isinstance(n, (ast.Assign, ast.AnnAssign, ast.AugAssign)):
                tg = n.targets if isinstance(n, ast.Assign) else [n.target]
                for t in tg:
                    if isinstance(t, ast.Name):
                        local_names.add(t.id)
        globs = {g for n in ast.walk(fi.node) if isinstance(n, ast.Global) for g in n.names}
        bad_store = None
        for n in ast.walk(fi.node):
            if isinstance(n, ast.Global):
                bad_store = (n, f"`global {', '.join(n.names)}`")
            tgts: list[ast.expr] = []
            if isinstance(n, ast.Assign):
                tgts = list(n.targets)
            elif isinstance(n, (ast.AugAssign, ast.AnnAssign)):
                tgts = [n.target]
            for t in tgts:
                if isinstance(t, ast.Attribute):
                    base = t.value
                    bs = ast.unparse(base)
                    mi = prog.modules[fi.module]
                    is_cls = (isinstance(base, ast.Name) and (base.id in mi.classes or (base.id in mi.imports and mi.imports[base.id] in prog.classes))
                              and base.id not in local_names)
                    if is_cls or bs in ("type(self)", "self.__class__") or (bs == "cls" and fi.is_classmethod):
                        bad_store = (n, f"store to class attribute `{ast.unparse(t)}`")
            if isinstance(n, ast.Call) and isinstance(n.func, ast.Attribute) and n.func.attr in MUTATORS and isinstance(n.func.value, ast.Name):
                nm = n.func.value.id
                if nm not in local_names and (fi.module, nm) in module_containers:
                    mutated[(fi.module, nm)] = f"{fi.qualname} at {loc(fi, n)}"
            if isinstance(n, (ast.Assign, ast.AugAssign)):
                for t in (n.targets if isinstance(n, ast.Assign) else [n.target]):
                    if isinstance(t, ast.Subscript) and isinstance(t.value, ast.Name) and t.value.id not in local_names and (fi.module, t.value.id) in module_containers:
                        mutated[(fi.module, t.value.id)] = f"{fi.qualname} at {loc(fi, n)}"
        # aliasing: a module-level container stored (un-copied) into an attribute is one object shared by every instance,
        # whichever of them mutates it later through the attribute
        for n in ast.walk(fi.node):
            if isinstance(n, (ast.Assign, ast.AnnAssign)) and isinstance(getattr(n, "value", None), ast.Name):
                nm = n.value.id
                tg = n.targets if isinstance(n, ast.Assign) else [n.target]
                if nm not in local_names and (fi.module, nm) in module_containers and any(isinstance(t, ast.Attribute) for t in tg):
                    mutated[(fi.module, nm)] = f"every instance through the alias `{ast.unparse([t for t in tg if isinstance(t, ast.Attribute)][0])}` bound in {fi.qualname} at {loc(fi, n)}"
        _ = globs
        key = f"{fi.qualname}"
        ev.inst("C11-R3", key, "violation" if bad_store else "ok", loc(fi, fi.node))
        if bad_store:
            n, what = bad_store
            out.append(Finding("C11-R3", f"{fi.qualname} | {norm(n)[:100]}", f"{what}: state shared across handler instances", loc(fi, n)))
    for (m, k), v in module_containers.items():
        bad = mutated.get((m, k))
        ev.inst("C11-R1d", f"{m}.{k}", "violation" if bad else "ok", f"{prog.modules[m].path}:{v.lineno}")
        if bad:
            out.append(Finding("C11-R1d", f"{m}.{k}", f"module-level container {k} is shared/mutated by {bad}: state shared across handler instances", f"{prog.modules[m].path}:{v.lineno}"))
    if not module_containers:
        for mi in prog.modules.values():
            ev.inst("C11-R1d", f"{mi.name} | no module-level containers", "ok")
    out += _caller_owned_mutation(prog, ev)
    from .c11_reset import reset_vs_fresh
    try:
        out += reset_vs_fresh(ctx, ev)
        out += admission_matches_transaction(ctx, ev)
    except AnalysisError as exc_:
        if not out:
            raise
        # the interpreter-based part could not run on this tree; the definite syntax-tree findings above stand on their own
        print(f"note: {exc_} - reported together with the violation(s) below")
        return out
    ev.extra["explanation"] = (f"every dataclass field default, class attribute, default argument and module-level container of {len(prog.modules)} modules examined "
                               f"for shared mutable state; every function examined for stores to class attributes/globals; reset-vs-fresh comparison of the per-transaction blocks")
    ev.assume("objects handed in by the user (configuration, user, providers) are outside the property: sharing them between handlers is the user's decision")
    return out


def admission_matches_transaction(ctx: Ctx, ev: Evidence) -> list[Finding]:
    """R4: a running transaction only consumes PDUs that were matched against its own ids: every packet-carrying
    edge of a busy source handler that gets past admission compared the PDU's source id, destination id and
    transaction sequence number with the transaction's (the comparison survives on every accepted path, because
    the rejecting arm raises); the destination handler compares the destination id."""
    from ..atsq import state_of, step_of
    from ..core import witness_of
    out: list[Finding] = []
    ev.rule("C11-R4", "PDUs accepted by a busy handler were matched against the running transaction's ids (source: source id, destination id, sequence number)", 6)
    need = {"source": ("pkt.source_entity_id", "pkt.dest_entity_id", "pkt.transaction_seq_num"), "dest": ("pkt.dest_entity_id",)}
    for which in ("source", "dest"):
        a = ctx.ats(which)
        seen: set[str] = set()
        for e in a.edges:
            if e.label[0] != "state_machine" or e.label[1] is None or state_of(a, e.pre) != "BUSY":
                continue
            if e.exc is not None and e.exc.cls.startswith(("Invalid", "NoRemote", "PduIgnored")):
                continue
            if a.h.wget(e.pre, "_pdus_to_be_sent"):
                continue
            if any(x.kind == "store" and x.name.startswith("PduConfig.") for x in e.ev):
                continue  # the call that starts the transaction rewrites the ids after admission (facts about the old values are dropped)
            for idn in need[which]:
                matched = any(isinstance(k, tuple) and k[0] in ("eq0", "eq") and idn in repr(k) and v is True for k, v in e.ch)
                kk = f"{which} handler | {e.label[1]} PDU accepted in step {step_of(a, e.pre)}: {idn} matched: {matched}"
                if kk in seen:
                    continue
                seen.add(kk)
                ev.inst("C11-R4", kk, "ok" if matched else "violation")
                if not matched:
                    out.append(Finding("C11-R4", f"{which} handler | {e.label[1]} PDU accepted without matching {idn}",
                                       f"a {e.label[1]} PDU gets past admission without its {idn.split('.')[1]} being compared with the running transaction's: PDUs of another transaction are consumed", "", witness_of(a, e)))
    return out

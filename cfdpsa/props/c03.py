"""C03 - acknowledged mode recovers from bounded faults: ONLY the retransmission-acceptance matrix.

Recovery itself is a liveness property of two communicating machines under all fault placements
and is not decided.  One necessary condition is structural - which step accepts which retransmitted
PDU - and is read from the abstract transition systems:
(a) destination, every step after the first EOF: a re-sent EOF is acknowledged (CFDP 4.7.2 and the
    library's own docstring: "every EOF PDU received MUST be acknowledged");
(b) source, every step from sending file data to awaiting Finished: a valid NAK is served;
(c) destination: Metadata is consumed while waiting for metadata, File Data while waiting for
    missing data; source: a Finished PDU is accepted while the EOF is still unacknowledged;
(d) both positive-ACK waits re-send on expiry (evaluated under C04-R1).
R2 (necessary condition for recovery, definite when it fails): in the product of the two abstract
transition systems over an abstract link, under the property's premise that no expiration limit is
reached, successful completion of both sides stays reachable after dropping any single PDU at any
point of a fault-free acknowledged transfer.  The product over-approximates the pair, so a drop
after which completion is unreachable can never be recovered by the real handlers either."""
from __future__ import annotations

from ..atsq import ename, mode_of, state_of, step_of
from ..model import AnalysisError
from ..core import Ctx, Evidence, Finding, witness_of


def check(ctx: Ctx, ev: Evidence) -> list[Finding]:
    out: list[Finding] = []
    ev.rule("C03-R1a", "destination (acknowledged, EOF already seen): an EOF input is answered with ACK(EOF) in every step", 5)
    ev.rule("C03-R1b", "source (acknowledged): a valid NAK is served with retransmissions in SENDING_FILE_DATA, WAITING_FOR_EOF_ACK and WAITING_FOR_FINISHED", 3)
    ev.rule("C03-R1c", "Metadata consumed while waiting for metadata; File Data consumed while waiting for missing data; Finished accepted while awaiting ACK(EOF)", 3)
    dst, src = ctx.ats("dest"), ctx.ats("source")
    h = dst.h
    cells: dict[str, dict[str, object]] = {}
    for e in dst.edges:
        if e.label != ("state_machine", "EOF") or mode_of(dst, e.pre) != "ACKNOWLEDGED" or state_of(dst, e.pre) != "BUSY":
            continue
        if h.wget(e.pre, "_pdus_to_be_sent") or h.wget(e.pre, "_params.fp.file_size_eof") is None:
            continue
        if e.exc is not None:
            continue  # admission rejections (wrong direction, ids) are not the protocol's answer
        step = step_of(dst, e.pre)
        acked = any(x.kind == "pdu" and x.name == "ACK_EOF" for x in e.ev)
        c = cells.setdefault(step, {"acked": 0, "silent": 0, "edge": None})
        if acked:
            c["acked"] += 1
        else:
            c["silent"] += 1
            c["edge"] = c["edge"] or e
    for step, c in sorted(cells.items()):
        ok = c["silent"] == 0
        ev.inst("C03-R1a", f"dest step {step}: re-sent EOF acknowledged on {c['acked']} paths, silently ignored on {c['silent']}", "ok" if ok else "violation")
        if not ok:
            out.append(Finding("C03-R1a", f"dest handler | re-sent EOF not acknowledged | step {step}",
                               f"in step {step} a (re-sent) EOF PDU is silently ignored: a lost ACK(EOF) can never be recovered", "", witness_of(dst, c["edge"])))
    hs = src.h
    served: dict[str, bool] = {}
    for e in src.edges:
        if e.label == ("state_machine", "NAK") and mode_of(src, e.pre) == "ACKNOWLEDGED" and not hs.wget(e.pre, "_pdus_to_be_sent"):
            step = step_of(src, e.pre)
            if e.exc is None and any(x.kind == "pdu" and x.name in ("FD", "METADATA") for x in e.ev) and step_of(src, e.post) == "RETRANSMITTING":
                served[step] = True
            else:
                served.setdefault(step, False)
    for step in ("SENDING_FILE_DATA", "WAITING_FOR_EOF_ACK", "WAITING_FOR_FINISHED"):
        ok = served.get(step, False)
        ev.inst("C03-R1b", f"source step {step}: a valid NAK is served: {ok}", "ok" if ok else "violation")
        if not ok:
            out.append(Finding("C03-R1b", f"source handler | NAK not served | step {step}", f"in step {step} no NAK leads to a retransmission", "src/cfdppy/handler/source.py"))
    md = fd = fin = False
    fin_edge = None
    for e in dst.edges:
        if e.exc is None and e.label == ("state_machine", "METADATA") and step_of(dst, e.pre) == "WAITING_FOR_METADATA" and any(x.kind == "env" and x.name == "user.metadata_recv_indication" for x in e.ev):
            md = True
        if e.exc is None and e.label == ("state_machine", "FD") and step_of(dst, e.pre) == "WAITING_FOR_MISSING_DATA" and any(x.kind == "env" and x.name == "vfs.write_data" for x in e.ev):
            fd = True
    for e in src.edges:
        if e.label == ("state_machine", "FINISHED") and step_of(src, e.pre) == "WAITING_FOR_EOF_ACK" and not hs.wget(e.pre, "_pdus_to_be_sent"):
            direction = next((v.name for k, v in e.ch if k == ("pkt", "direction")), None)
            if e.exc is None:
                fin = True
            elif e.exc.cls == "PduIgnoredForSource":
                fin_edge = fin_edge or e
    for name, ok, msg, key in (("dest: Metadata consumed in WAITING_FOR_METADATA", md, "a retransmitted Metadata PDU is not consumed while waiting for metadata", "dest handler | Metadata not consumed | WAITING_FOR_METADATA"),
                               ("dest: File Data consumed in WAITING_FOR_MISSING_DATA", fd, "retransmitted File Data is not written while waiting for missing data", "dest handler | File Data not consumed | WAITING_FOR_MISSING_DATA"),
                               ("source: Finished PDU accepted in WAITING_FOR_EOF_ACK", fin, "the Finished PDU is refused while the EOF is still unacknowledged: after a lost ACK(EOF) the receiver's completion can never be taken", "source handler | Finished refused | WAITING_FOR_EOF_ACK")):
        ev.inst("C03-R1c", f"{name}: {ok}", "ok" if ok else "violation")
        if not ok:
            out.append(Finding("C03-R1c", key, msg, "", witness_of(src, fin_edge) if "Finished" in name and fin_edge is not None else None))
    out += eof_fields_recorded(ctx, ev, dst)
    out += checksum_verdict_only_when_complete(ctx, ev, dst)
    out += single_drop_recoverability(ctx, ev, src, dst)
    ev.extra["explanation"] = "acceptance matrix (step x retransmitted PDU kind) read from the abstract transition systems of both handlers; recovery/liveness under fault schedules is NOT decided"
    ev.assume("the surrounding entity acknowledges EOF PDUs of transactions the addressed handler already closed (acknowledge_inactive_eof_pdu, C20-R3)")
    return out


def eof_fields_recorded(ctx: Ctx, ev: Evidence, dst) -> list[Finding]:
    """C03-R1d: the completion check compares the computed checksum with a stored field; every call that accepts (acknowledges)
    an EOF PDU must store that field, whichever entry path the EOF took (EOF after Metadata, EOF before Metadata, EOF as the
    first PDU) - otherwise the transfer recovered from a lost Metadata PDU can never verify."""
    import ast as _ast
    ev.rule("C03-R1d", "every call that acknowledges an EOF PDU records the checksum field the completion check later compares against", 2)
    out: list[Finding] = []
    prog = ctx.prog
    fld = None
    for fi in prog.functions.values():
        if fi.cls != dst.h.cls:
            continue
        calls = [n for n in _ast.walk(fi.node) if isinstance(n, _ast.Call) and isinstance(n.func, _ast.Attribute) and n.func.attr == "calculate_checksum"]
        if not calls:
            continue
        names = {t.id for a in _ast.walk(fi.node) if isinstance(a, _ast.Assign) and any(c is a.value for c in calls) for t in a.targets if isinstance(t, _ast.Name)}
        for c in _ast.walk(fi.node):
            if isinstance(c, _ast.Compare) and len(c.ops) == 1 and isinstance(c.ops[0], (_ast.Eq, _ast.NotEq)):
                sides = [c.left, c.comparators[0]]
                for a, b in (sides, sides[::-1]):
                    if ((isinstance(a, _ast.Name) and a.id in names) or any(x is a for x in calls)) and isinstance(b, _ast.Attribute):
                        fld = b.attr
    if fld is None:
        raise AnalysisError("the comparison of the computed checksum with a stored field was not found in the destination handler")
    groups: dict[str, dict[str, int]] = {}
    wit: dict[str, object] = {}
    for e in dst.edges:
        if e.label != ("state_machine", "EOF") or e.exc is not None:
            continue
        acks = [x for x in e.ev if x.kind == "pdu" and x.name == "ACK_EOF"]
        if not acks:
            continue
        stores = [x for x in e.ev if x.kind == "store"]
        # grouped by what the handler knew when the EOF arrived, named without private identifiers
        entry = "before the Metadata PDU" if dst.h.wget(e.pre, "_params.acked_params.metadata_missing") is True or state_of(dst, e.pre) == "IDLE" else "after the Metadata PDU"
        g = groups.setdefault(entry, {"ok": 0, "bad": 0})
        if any(x.name.endswith("." + fld) for x in stores):
            g["ok"] += 1
        else:
            g["bad"] += 1
            wit.setdefault(entry, e)
    if not groups:
        raise AnalysisError("no EOF-acknowledging edge in the destination ATS")
    for entry, g in sorted(groups.items()):
        ok = g["bad"] == 0
        ev.inst("C03-R1d", f"EOF accepted {entry}: field `{fld}` stored on {g['ok']} edges, not stored on {g['bad']}", "ok" if ok else "violation")
        if not ok:
            out.append(Finding("C03-R1d", f"dest handler | EOF accepted without recording its checksum | {entry}",
                               f"an EOF PDU accepted {entry} is acknowledged but its checksum is not stored in `{fld}`: the completion check after the recovery compares against the initial value and can never succeed", "", witness_of(dst, wit[entry])))
    return out


def checksum_verdict_only_when_complete(ctx: Ctx, ev: Evidence, dst) -> list[Finding]:
    """C03-R1f: in acknowledged mode the checksum verdict is taken only when nothing is recorded missing any more. A
    FILE_CHECKSUM_FAILURE declared while the tracker still holds gaps (or the Metadata is missing) judges an incomplete file:
    with any handler code other than IGNORE it cancels a transfer the NAK procedure would have completed."""
    ev.rule("C03-R1f", "acknowledged mode: FILE_CHECKSUM_FAILURE is declared only when no gap is recorded and the Metadata is present", 1)
    out: list[Finding] = []
    h = dst.h
    n = 0
    bad = None
    for e in dst.edges:
        for x in e.ev:
            if x.kind == "env" and x.name.startswith("fault.") and ename(x.args[1]) == "FILE_CHECKSUM_FAILURE" and ename(h.ew(x.watch, "_params.pdu_conf.trans_mode")) == "ACKNOWLEDGED":
                n += 1
                tr = h.ew(x.watch, "_params.acked_params.lost_seg_tracker.$n")
                mm = h.ew(x.watch, "_params.acked_params.metadata_missing")
                if tr != 0 or mm is True:
                    bad = bad or (e, x, tr, mm)
    ev.inst("C03-R1f", f"dest handler | {n} checksum-failure declarations in acknowledged mode, with gaps still recorded: {'none' if bad is None else 'yes'}", "ok" if bad is None else "violation")
    if bad is not None:
        e, x, tr, mm = bad
        out.append(Finding("C03-R1f", "dest handler | checksum failure declared while data is still recorded missing",
                           f"FILE_CHECKSUM_FAILURE is declared in acknowledged mode while the lost-segment tracker is {'non-empty' if tr != 0 else 'empty'} and metadata missing={mm}: the verdict is taken on an incomplete file (a non-IGNORE handler code cancels a recoverable transfer)", x.site, witness_of(dst, e)))
    return out


def single_drop_recoverability(ctx: Ctx, ev: Evidence, src, dst) -> list[Finding]:
    from ..product import PState, Product
    out: list[Finding] = []
    ev.rule("C03-R2", "product of both ATSs over an abstract link: after dropping any single PDU of an acknowledged transfer, completion of both sides remains reachable without any limit fault", 20)
    for closure in (False, True):
        P = Product(src, dst, "ACKNOWLEDGED", closure, "file")
        starts = P.initial()
        if not starts:
            raise AnalysisError("product: no acknowledged put_request edge from the initial state")
        g, _seen = P.explore(starts, max_states=1500000)
        good = P.can_reach_goal(g)
        if not any(s in good for s in starts):
            out.append(Finding("C03-R2", f"product | acknowledged transfer (closure={closure}) cannot complete even without faults",
                               "the two abstract transition systems cannot run a fault-free acknowledged transfer to successful completion of both sides", ""))
            ev.inst("C03-R2", f"closure={closure}: fault-free completion reachable: False", "violation")
            continue
        drops: dict = {}
        for st in list(g):
            if st not in good:
                continue
            for ch, name in ((st.sd, "sd"), (st.ds, "ds")):
                if ch:
                    nst = PState(st.s, st.d, st.sd[1:] if name == "sd" else st.sd, st.ds[1:] if name == "ds" else st.ds, st.bits)
                    drops.setdefault(nst, (ch[0][0], st))
        n0 = len(g)
        g2, _ = P.explore(list(drops), max_states=3000000, known=g)
        good2 = P.can_reach_goal(g2)
        per: dict[tuple, list[int]] = {}
        for nst, (kind, st) in drops.items():
            k = (kind, step_of(src, src.h.watch(src.nodes[st.s])), step_of(dst, dst.h.watch(dst.nodes[st.d])))
            c = per.setdefault(k, [0, 0])
            c[0] += 1
            if nst not in good2:
                c[1] += 1
        bad_kinds: dict[str, list[str]] = {}
        for (kind, ss, ds), (n, nb) in sorted(per.items()):
            ev.inst("C03-R2", f"closure={closure}: {kind} dropped with source in {ss}, destination in {ds}: {n - nb} of {n} abstract situations can still complete", "ok" if nb == 0 else "violation")
            if nb:
                bad_kinds.setdefault(kind, []).append(f"{ss}/{ds}")
        for kind, where in bad_kinds.items():
            out.append(Finding("C03-R2", f"product | a dropped {kind} PDU is unrecoverable",
                               f"acknowledged transfer (closure={closure}): after a single dropped {kind} PDU (source/destination steps {sorted(set(where))[:4]}) successful completion of both sides is unreachable "
                               f"in the product of the two transition systems, although no expiration limit is reached: the fault can never be recovered", ""))
        info = {"fault_free_states": n0, "states_with_single_drop": len(g2), "drop_points": len(drops), "channel_truncations": P.truncated}
        if ctx.tier == "thorough":
            # K = 2: from every situation that is still recoverable after one drop, drop a second PDU
            ev.rule("C03-R3", "thorough: after dropping any TWO PDUs (the second anywhere in the recovery from the first) completion remains reachable without a limit fault", 10)
            allg = dict(g)
            allg.update(g2)
            drops2: dict = {}
            for st in list(g2):
                if st not in good2:
                    continue
                for ch, name in ((st.sd, "sd"), (st.ds, "ds")):
                    if ch:
                        nst = PState(st.s, st.d, st.sd[1:] if name == "sd" else st.sd, st.ds[1:] if name == "ds" else st.ds, st.bits)
                        if nst not in allg:
                            drops2.setdefault(nst, (ch[0][0], st))
            g3, _ = P.explore(list(drops2), max_states=6000000, known=allg)
            good3 = P.can_reach_goal(g3)
            per2: dict[tuple, list[int]] = {}
            for nst, (kind, st) in drops2.items():
                k = (kind, step_of(src, src.h.watch(src.nodes[st.s])), step_of(dst, dst.h.watch(dst.nodes[st.d])))
                c = per2.setdefault(k, [0, 0])
                c[0] += 1
                if nst not in good3:
                    c[1] += 1
            bad2: dict[str, list[str]] = {}
            for (kind, ss, ds), (n, nb) in sorted(per2.items()):
                ev.inst("C03-R3", f"closure={closure}: second drop of {kind} with source in {ss}, destination in {ds}: {n - nb} of {n} abstract situations can still complete", "ok" if nb == 0 else "violation")
                if nb:
                    bad2.setdefault(kind, []).append(f"{ss}/{ds}")
            for kind, where in bad2.items():
                if kind in bad_kinds:
                    continue  # already unrecoverable as a single drop (reported under C03-R2)
                out.append(Finding("C03-R3", f"product | a second dropped {kind} PDU is unrecoverable",
                                   f"acknowledged transfer (closure={closure}): a {kind} PDU dropped during the recovery from an earlier drop (source/destination steps {sorted(set(where))[:4]}) makes successful completion unreachable although no expiration limit is reached", ""))
            info.update({"second_drop_points": len(drops2), "states_with_two_drops": len(g3)})
        ev.extra.setdefault("product", {})[f"acknowledged, closure={closure}"] = info
    ev.assume("product model: the link delivers PDUs in order; users retrieve every queued PDU after every call; bursts of equal PDUs are collapsed; channels hold at most 3 distinct consecutive PDUs (longer backlogs are cut)")
    ev.assume("premise of C03: every expiration limit exceeds the number of faults, so paths that declare a limit fault are excluded")
    return out

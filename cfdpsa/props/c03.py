"""C03 - acknowledged mode recovers from bounded faults: ONLY the retransmission-acceptance matrix.

Recovery itself is a liveness property of two communicating machines under all fault placements
and is not decided.  One necessary condition is structural - which step accepts which retransmitted
PDU - and is read from the abstract transition systems:
(a) destination, every step after the first EOF: a re-sent EOF is acknowledged (CFDP 4.7.2 and the
    library's own docstring: "every EOF PDU received MUST be acknowledged");
(b) source, every step from sending file data to awaiting Finished: a valid NAK is served;
(c) destination: Metadata is consumed while waiting for metadata, File Data while waiting for
    missing data; source: a Finished PDU is accepted while the EOF is still unacknowledged;
(d) both positive-ACK waits re-send on expiry (evaluated under C04-R1)."""
from __future__ import annotations

from ..atsq import ename, mode_of, state_of, step_of
from ..core import Ctx, Evidence, Finding, witness_of


def check(ctx: Ctx, ev: Evidence) -> list[Finding]:
    out: list[Finding] = []
    ev.rule("C03-R1a", "destination (acknowledged, EOF already seen): an EOF input is answered with ACK(EOF) in every step", 5)
    ev.rule("C03-R1b", "source (acknowledged): a valid NAK is served with retransmissions in SENDING_FILE_DATA, WAITING_FOR_EOF_ACK and WAITING_FOR_FINISHED", 3)
    ev.rule("C03-R1c", "Metadata consumed while waiting for metadata; File Data consumed while waiting for missing data; Finished accepted while awaiting ACK(EOF)", 3)
    dst, src = ctx.ats("dest"), ctx.ats("source")
    h = dst.h
    cells: dict[str, dict[str, object]] = {}
    for e in dst.edges:
        if e.label != ("state_machine", "EOF") or mode_of(dst, e.pre) != "ACKNOWLEDGED" or state_of(dst, e.pre) != "BUSY":
            continue
        if h.wget(e.pre, "_pdus_to_be_sent") or h.wget(e.pre, "_params.fp.file_size_eof") is None:
            continue
        if e.exc is not None:
            continue  # admission rejections (wrong direction, ids) are not the protocol's answer
        step = step_of(dst, e.pre)
        acked = any(x.kind == "pdu" and x.name == "ACK_EOF" for x in e.ev)
        c = cells.setdefault(step, {"acked": 0, "silent": 0, "edge": None})
        if acked:
            c["acked"] += 1
        else:
            c["silent"] += 1
            c["edge"] = c["edge"] or e
    for step, c in sorted(cells.items()):
        ok = c["silent"] == 0
        ev.inst("C03-R1a", f"dest step {step}: re-sent EOF acknowledged on {c['acked']} paths, silently ignored on {c['silent']}", "ok" if ok else "violation")
        if not ok:
            out.append(Finding("C03-R1a", f"dest handler | re-sent EOF not acknowledged | step {step}",
                               f"in step {step} a (re-sent) EOF PDU is silently ignored: a lost ACK(EOF) can never be recovered", "", witness_of(dst, c["edge"])))
    hs = src.h
    served: dict[str, bool] = {}
    for e in src.edges:
        if e.label == ("state_machine", "NAK") and mode_of(src, e.pre) == "ACKNOWLEDGED" and not hs.wget(e.pre, "_pdus_to_be_sent"):
            step = step_of(src, e.pre)
            if e.exc is None and any(x.kind == "pdu" and x.name in ("FD", "METADATA") for x in e.ev) and step_of(src, e.post) == "RETRANSMITTING":
                served[step] = True
            else:
                served.setdefault(step, False)
    for step in ("SENDING_FILE_DATA", "WAITING_FOR_EOF_ACK", "WAITING_FOR_FINISHED"):
        ok = served.get(step, False)
        ev.inst("C03-R1b", f"source step {step}: a valid NAK is served: {ok}", "ok" if ok else "violation")
        if not ok:
            out.append(Finding("C03-R1b", f"source handler | NAK not served | step {step}", f"in step {step} no NAK leads to a retransmission", "src/cfdppy/handler/source.py"))
    md = fd = fin = False
    fin_edge = None
    for e in dst.edges:
        if e.exc is None and e.label == ("state_machine", "METADATA") and step_of(dst, e.pre) == "WAITING_FOR_METADATA" and any(x.kind == "env" and x.name == "user.metadata_recv_indication" for x in e.ev):
            md = True
        if e.exc is None and e.label == ("state_machine", "FD") and step_of(dst, e.pre) == "WAITING_FOR_MISSING_DATA" and any(x.kind == "env" and x.name == "vfs.write_data" for x in e.ev):
            fd = True
    for e in src.edges:
        if e.label == ("state_machine", "FINISHED") and step_of(src, e.pre) == "WAITING_FOR_EOF_ACK" and not hs.wget(e.pre, "_pdus_to_be_sent"):
            direction = next((v.name for k, v in e.ch if k == ("pkt", "direction")), None)
            if e.exc is None:
                fin = True
            elif e.exc.cls == "PduIgnoredForSource":
                fin_edge = fin_edge or e
    for name, ok, msg, key in (("dest: Metadata consumed in WAITING_FOR_METADATA", md, "a retransmitted Metadata PDU is not consumed while waiting for metadata", "dest handler | Metadata not consumed | WAITING_FOR_METADATA"),
                               ("dest: File Data consumed in WAITING_FOR_MISSING_DATA", fd, "retransmitted File Data is not written while waiting for missing data", "dest handler | File Data not consumed | WAITING_FOR_MISSING_DATA"),
                               ("source: Finished PDU accepted in WAITING_FOR_EOF_ACK", fin, "the Finished PDU is refused while the EOF is still unacknowledged: after a lost ACK(EOF) the receiver's completion can never be taken", "source handler | Finished refused | WAITING_FOR_EOF_ACK")):
        ev.inst("C03-R1c", f"{name}: {ok}", "ok" if ok else "violation")
        if not ok:
            out.append(Finding("C03-R1c", key, msg, "", witness_of(src, fin_edge) if "Finished" in name and fin_edge is not None else None))
    ev.extra["explanation"] = "acceptance matrix (step x retransmitted PDU kind) read from the abstract transition systems of both handlers; recovery/liveness under fault schedules is NOT decided"
    ev.assume("the surrounding entity acknowledges EOF PDUs of transactions the addressed handler already closed (acknowledge_inactive_eof_pdu, C20-R3)")
    return out

"""C12 - cancellation takes effect immediately and is signalled correctly.

Over the cancel_request edges and the EOF(cancel) edges of both abstract transition systems:
(R1) return table: False with no effect when idle or for a foreign id, True with the cancel effects
otherwise; no comparison between members of different enums (constant false) anywhere;
(R2) sender: a successful cancel builds exactly one EOF with condition Cancel-Request-Received
whose size and checksum length are the file progress, lands in the EOF-ACK wait or idle, and no
state reachable afterwards within that transaction builds a new (progressing) File Data PDU;
(R3) receiver: Cancel.request records CANCELED with that condition and the *local* entity id as
fault location; an EOF with another condition records the EOF's condition and the *remote* entity
id; the Finished PDU is built iff closure or acknowledged mode; deletion is C05-R6."""
from __future__ import annotations

from ..atsq import cfg_of, ename, mode_of, rec_field, state_of, step_of
from ..core import Ctx, Evidence, Finding, witness_of
from ..values import E, Pdu, Sym


def _completes_silently(a, node, depth: int = 6) -> bool:
    """from `node`, along state_machine(None)/drain edges that are not timer driven, every branch reaches IDLE or the wait for
    the Finished PDU's acknowledgement (the Finished PDU / indication have been issued) within `depth` calls"""
    if node is None:
        return False
    h = a.h
    outs: dict[int, list] = getattr(a, "_silent_out", None)
    if outs is None:
        outs = {}
        for e in a.edges:
            if e.label in (("state_machine", None), ("drain",)):
                outs.setdefault(e.src, []).append(e)
        a._silent_out = outs

    def done(w) -> bool:
        return state_of(a, w) == "IDLE" or step_of(a, w) in ("WAITING_FOR_FINISHED_ACK",)

    seen: set[int] = set()

    def go(n: int, d: int) -> bool:
        w = h.watch(a.nodes[n])
        if done(w):
            return True
        if d == 0 or n in seen:
            return False
        seen.add(n)
        es = [e for e in outs.get(n, []) if e.exc is None and e.dst is not None and not any(isinstance(k, tuple) and k and k[0] == "timer" and v is True for k, v in e.ch)]
        es = [e for e in es if e.dst != n]
        if not es:
            return False
        return all(go(e.dst, d - 1) for e in es)

    return go(node, depth)


def _cancel_is_final(ctx: Ctx, ev: Evidence) -> list[Finding]:
    """C12-R4: once the receiver has recorded a cancellation (Cancel.request or EOF (cancel)), that transaction requests no
    more retransmissions and its recorded condition is not replaced by a success: every edge leaving a BUSY node whose
    completion disposition is CANCELED is inspected."""
    ev.rule("C12-R4", "receiver: a transaction recorded as cancelled emits no NAK PDU and never has its condition replaced by NO_ERROR / its delivery code by DATA_COMPLETE", 1)
    out: list[Finding] = []
    a = ctx.ats("dest")
    h = a.h
    n_edges = 0
    bad: dict[str, tuple] = {}
    for e in a.edges:
        if state_of(a, e.pre) != "BUSY" or ename(h.wget(e.pre, "_params.completion_disposition")) != "CANCELED":
            continue
        if e.label[0] in ("reset",):
            continue
        n_edges += 1
        for x in e.ev:
            # only while the same transaction is still the cancelled one (a reset/new transaction re-creates the parameter block)
            if ename(h.ew(x.watch, "_params.completion_disposition")) != "CANCELED":
                continue
            if x.kind == "pdu" and x.name.startswith("NAK"):
                bad.setdefault(f"dest handler | cancelled transaction requests retransmission | {x.func.split('.')[-1]}", (x, e, "a NAK PDU is emitted for a transaction that is already recorded as cancelled"))
            if x.kind == "store" and x.name == "FinishedParams.condition_code" and ename(x.args[0]) == "NO_ERROR":
                bad.setdefault(f"dest handler | cancelled transaction: condition replaced by NO_ERROR | {x.func.split('.')[-1]}", (x, e, "the condition recorded for a cancelled transaction is overwritten with NO_ERROR: the user and the peer are told the transfer succeeded"))
            if x.kind == "store" and x.name == "FinishedParams.delivery_code" and ename(x.args[0]) == "DATA_COMPLETE" and step_of(a, e.pre) != "IDLE":
                bad.setdefault(f"dest handler | cancelled transaction: delivery code set to DATA_COMPLETE | {x.func.split('.')[-1]}", (x, e, "a cancelled transaction is later marked DATA_COMPLETE"))
    if n_edges == 0:
        from ..model import AnalysisError
        raise AnalysisError("no edge leaves a cancelled busy state of the destination ATS (rule blind)")
    ev.inst("C12-R4", f"dest handler | {n_edges} edges from cancelled busy states inspected: {len(bad)} offending constructs", "ok" if not bad else "violation")
    for k, (x, e, msg) in sorted(bad.items()):
        ev.inst("C12-R4", k, "violation", x.site)
        out.append(Finding("C12-R4", k, msg, x.site, witness_of(a, e)))
    return out


def _eof_condition_consulted(ctx: Ctx, ev: Evidence) -> list[Finding]:
    """C12-R5: an EOF (cancel) can only be honoured by code that looks at the EOF's condition code. On every ATS edge that
    accepts (acknowledges or completes on) an EOF PDU the interpreter must have branched on pkt.condition_code; an entry path
    that never reads it treats EOF (cancel) exactly like EOF (no error)."""
    ev.rule("C12-R5", "receiver: every path that accepts an EOF PDU consults the EOF's condition code", 2)
    out: list[Finding] = []
    a = ctx.ats("dest")
    groups: dict[str, dict] = {}
    for e in a.edges:
        if e.label != ("state_machine", "EOF") or e.exc is not None:
            continue
        stores = [x for x in e.ev if x.kind == "store" and x.name.endswith(".file_size_eof")]
        if not stores:
            continue  # the EOF was not taken up on this edge
        # grouped by what the handler knew when the EOF arrived (Metadata received or not), named without private identifiers
        entry = "before the Metadata PDU" if a.h.wget(e.pre, "_params.acked_params.metadata_missing") is True or state_of(a, e.pre) == "IDLE" else "after the Metadata PDU"
        g = groups.setdefault(entry, {"ok": 0, "bad": 0, "edge": None, "site": stores[0].site, "fn": stores[0].func.split(".")[-1]})
        if any(k == ("pkt", "condition_code") for k, _ in e.ch):
            g["ok"] += 1
        else:
            g["bad"] += 1
            g["edge"] = g["edge"] or e
    if not groups:
        from ..model import AnalysisError
        raise AnalysisError("no EOF-accepting edge found in the destination ATS")
    for entry, g in sorted(groups.items()):
        ok = g["bad"] == 0
        ev.inst("C12-R5", f"dest handler | EOF taken up {entry} (in {g['fn']}): condition code consulted on {g['ok']} edges, never read on {g['bad']}", "ok" if ok else "violation", g["site"])
        if not ok:
            out.append(Finding("C12-R5", f"dest handler | EOF accepted without consulting its condition code | {entry}",
                               f"{g['fn']} records and acknowledges an EOF PDU that arrives {entry} without ever reading its condition code: an EOF (cancel) on this path is treated as a regular end of file", g["site"], witness_of(a, g["edge"])))
    return out


def _eof_cancel_taken_up(ctx: Ctx, ev: Evidence) -> list[Finding]:
    """C12-R6: "an EOF (cancel) received from the sender finishes the transaction with the EOF's condition" - in every step in
    which the receiver still waits for file data of a transaction that is neither cancelled nor complete. Those steps are
    derived (steps with an edge on which a File Data PDU is written); a step passes when some EOF edge leaving it records
    the cancellation (disposition CANCELED with the remote entity as fault location)."""
    ev.rule("C12-R6", "receiver: an EOF (cancel) is taken up in every step that still accepts file data of a running transaction", 3)
    out: list[Finding] = []
    a = ctx.ats("dest")
    h = a.h
    data_steps: set[str] = set()
    for e in a.edges:
        if e.label == ("state_machine", "FD") and e.exc is None and state_of(a, e.pre) == "BUSY" and any(x.kind == "env" and x.name == "vfs.write_data" for x in e.ev):
            data_steps.add(step_of(a, e.pre))
    if not data_steps:
        from ..model import AnalysisError
        raise AnalysisError("no step of the destination handler writes File Data (rule blind)")
    took: dict[str, bool] = {s_: False for s_ in data_steps}
    wit: dict[str, object] = {}
    for e in a.edges:
        if e.label != ("state_machine", "EOF") or state_of(a, e.pre) != "BUSY":
            continue
        st = step_of(a, e.pre)
        if st not in took or ename(h.wget(e.pre, "_params.completion_disposition")) == "CANCELED" or h.wget(e.pre, "_pdus_to_be_sent"):
            continue
        stores = [(x.name, x.args[0]) for x in e.ev if x.kind == "store"]
        if any(n_ == "_DestFieldWrapper.completion_disposition" and ename(v_) == "CANCELED" for n_, v_ in stores) \
                and any(n_ == "FinishedParams.fault_location" and "remote_cfg.entity_id" in repr(v_) for n_, v_ in stores):
            took[st] = True
        elif e.exc is None:
            wit.setdefault(st, e)
    for st, ok in sorted(took.items()):
        ev.inst("C12-R6", f"dest handler | step {st} (file data still accepted): an EOF (cancel) records the cancellation: {ok}", "ok" if ok else "violation")
        if not ok:
            out.append(Finding("C12-R6", f"dest handler | EOF (cancel) not taken up | step {st}",
                               f"in step {st} the receiver still accepts file data but ignores an EOF PDU: an EOF (cancel) from the sender does not finish the transaction with the EOF's condition (it runs on until a limit fault)", "", witness_of(a, wit[st]) if st in wit else None))
    return out


def check(ctx: Ctx, ev: Evidence) -> list[Finding]:
    out: list[Finding] = []
    ev.rule("C12-R1", "cancel_request return table (idle / foreign id / own id) and absence of cross-enum comparisons", 6)
    ev.rule("C12-R2", "sender: EOF(cancel) with progress as size and checksum length; no new file data afterwards", 3)
    ev.rule("C12-R3", "receiver: condition and fault location recorded for Cancel.request (local id) and EOF(cancel) (remote id); Finished PDU iff closure or acknowledged", 6)
    for which in ("source", "dest"):
        a = ctx.ats(which)
        h = a.h
        seen: set[str] = set()

        def once(k: str) -> bool:
            if k in seen:
                return False
            seen.add(k)
            return True

        for note, n in a.stats["notes"].items():
            if "cross-enum" in note:
                ev.inst("C12-R1", f"{which} handler | {note}", "violation")
                out.append(Finding("C12-R1", f"{which} handler | {note}", f"{note}: the test can never be true", f"src/cfdppy/handler/{which}.py"))
        if not any("cross-enum" in n for n in a.stats["notes"]):
            ev.inst("C12-R1", f"{which} handler | no comparison between members of different enums on any interpreted path", "ok")
        cancel_posts: set[int] = set()
        for e in a.edges:
            if e.label[0] != "cancel_request":
                continue
            idle = state_of(a, e.pre) == "IDLE"
            effects = [x for x in e.ev if x.kind in ("store", "pdu") or (x.kind == "env" and not x.name.startswith("remote_cfg_table"))]
            if e.exc is not None:
                if e.exc.cls == "UnretrievedPdusToBeSent":
                    continue
                continue  # other exceptions are C10's subject
            if idle:
                ok = e.ret is False and not effects
                k = f"{which} handler | idle -> {e.ret!r}" + ("" if not effects else f" with effect {effects[0].kind}:{effects[0].name}")
            elif e.ret is True:
                ok = bool(effects)
                k = f"{which} handler | busy ({step_of(a, e.pre)}), own id -> True with cancel effects: {ok}"
            else:
                ok = e.ret is False and not effects
                k = f"{which} handler | busy ({step_of(a, e.pre)}), foreign id -> {e.ret!r}" + ("" if not effects else f" with effect {effects[0].kind}:{effects[0].name}")
            if once(k):
                ev.inst("C12-R1", k, "ok" if ok else "violation")
                if not ok:
                    out.append(Finding("C12-R1", k, f"cancel_request: {k}", "", witness_of(a, e)))
            if e.ret is True and e.dst is not None:
                cancel_posts.add(e.dst)
            # ---- R2 sender
            if which == "source" and e.ret is True:
                cc0 = ename(h.wget(e.pre, "_params.cond_code_eof"))
                if cc0 not in ("None", "NO_ERROR"):
                    continue  # second cancel during the EOF(cancel) exchange abandons, by design
                eofs = [x for x in e.ev if x.kind == "pdu" and x.name == "EOF"]
                others = [x for x in e.ev if x.kind == "pdu" and x.name != "EOF"]
                desc = []
                ok = len(eofs) == 1 and not others
                if not ok:
                    desc.append(f"{len(eofs)} EOF and {len(others)} other PDUs built")
                for x in eofs:
                    p: Pdu = x.args[0]
                    cond, size = p.get("condition_code"), p.get("file_size")
                    if cond != E("ConditionCode", "CANCEL_REQUEST_RECEIVED"):
                        ok = False
                        desc.append(f"condition {cond!r}")
                    if repr(size) not in ("0", "$_SourceFileParams.progress"):
                        ok = False
                        desc.append(f"size {size!r} is not the progress")
                    chk = [y for y in e.ev if y.kind == "env" and y.name == "vfs.calculate_checksum"]
                    md_only = h.wget(e.pre, "_params.fp.metadata_only") is True
                    if not md_only and (len(chk) != 1 or chk[0].args[2] != size):
                        ok = False
                        desc.append(f"checksum computed over {[y.args[2] for y in chk]!r}, size announced {size!r}")
                post_ok = step_of(a, e.post) in ("WAITING_FOR_EOF_ACK", "IDLE")
                if not post_ok:
                    ok = False
                    desc.append(f"ends in step {step_of(a, e.post)}")
                k = f"source handler | cancel from {step_of(a, e.pre)} ({mode_of(a, e.pre)}): " + ("EOF(cancel, progress) then " + step_of(a, e.post) if ok else "; ".join(desc))
                if once(k):
                    ev.inst("C12-R2", k, "ok" if ok else "violation")
                    if not ok:
                        out.append(Finding("C12-R2", f"source handler | cancel | {'; '.join(desc)[:100]}", f"successful Cancel.request at the sender: {'; '.join(desc)}", "", witness_of(a, e)))
            # ---- R3 receiver (Cancel.request)
            if which == "dest" and e.ret is True:
                st = {x.name: x.args[0] for x in e.ev if x.kind == "store"}
                cond = st.get("FinishedParams.condition_code")
                fl = st.get("FinishedParams.fault_location")
                disp = st.get("_DestFieldWrapper.completion_disposition")
                # the cancellation takes effect without any further input: following packet-less calls only, the notice of
                # completion (back to idle) is reached, whatever intermediate step the handler is left in
                completes = _completes_silently(a, e.dst)
                ok = cond == E("ConditionCode", "CANCEL_REQUEST_RECEIVED") and ename(disp) == "CANCELED" and "cfg.local_entity_id" in repr(fl) and "remote_cfg" not in repr(fl) \
                    and completes
                k = f"dest handler | Cancel.request: condition={ename(cond)}, disposition={ename(disp)}, fault location={fl!r}, completion by packet-less calls: {completes}"
                if once(k):
                    ev.inst("C12-R3", k, "ok" if ok else "violation")
                    if not ok:
                        out.append(Finding("C12-R3", f"dest handler | Cancel.request | {k[37:150]}", "Cancel.request at the receiver does not record Cancel-Request-Received with the local entity as fault location", "", witness_of(a, e)))
        if which == "source":
            # no progressing file data after a successful cancel, within the same transaction
            reach = set(cancel_posts)
            work = list(cancel_posts)
            bad = None
            while work and bad is None:
                n = work.pop()
                for ei in a.out.get(n, ()):
                    e = a.edges[ei]
                    if e.label[0] in ("put_request", "reset"):
                        continue
                    for i, x in enumerate(e.ev):
                        if x.kind == "store" and x.name == "_SourceFileParams.progress" and x.args[2] == "aug":
                            bad = (e, x)
                            break
                    if bad:
                        break
                    if e.dst is not None and e.dst not in reach and state_of(a, e.post) != "IDLE":
                        reach.add(e.dst)
                        work.append(e.dst)
            ev.inst("C12-R2", f"source handler | {len(reach)} abstract states reachable after a successful cancel: no progressing File Data PDU", "violation" if bad else "ok")
            if bad:
                e, x = bad
                out.append(Finding("C12-R2", "source handler | new file data after a successful cancel", f"after a successful Cancel.request the sender can still build a progressing File Data PDU (step {step_of(a, e.pre)})", x.site, witness_of(a, e)))
        else:
            handled: dict[str, bool] = {}
            for e in a.edges:
                if e.label == ("state_machine", "EOF") and e.exc is None and step_of(a, e.pre) in ("RECEIVING_FILE_DATA", "RECV_FILE_DATA_WITH_CHECK_LIMIT_HANDLING") \
                        and not h.wget(e.pre, "_pdus_to_be_sent"):
                    cancelled = any(x.kind == "store" and x.name == "_DestFieldWrapper.completion_disposition" and ename(x.args[0]) == "CANCELED" for x in e.ev)
                    handled[step_of(a, e.pre)] = handled.get(step_of(a, e.pre), False) or cancelled
            for stp in ("RECEIVING_FILE_DATA", "RECV_FILE_DATA_WITH_CHECK_LIMIT_HANDLING"):
                if stp in handled:
                    ev.inst("C12-R3", f"dest handler | EOF(cancel) finishes the transaction in step {stp}: {handled[stp]}", "ok" if handled[stp] else "violation")
                    if not handled[stp]:
                        out.append(Finding("C12-R3", f"dest handler | EOF(cancel) ignored in step {stp}", f"an EOF (cancel) arriving in step {stp} does not cancel the transaction", "src/cfdppy/handler/dest.py"))
            # EOF(cancel) received; Finished PDU iff closure or acknowledged
            for e in a.edges:
                if e.label == ("state_machine", "EOF") and e.exc is None:
                    st = [(x.name, x.args[0]) for x in e.ev if x.kind == "store"]
                    trig = [x for x in e.ev if x.kind == "store" and x.name == "FinishedParams.fault_location"]
                    if not trig:
                        continue
                    cond = dict(st).get("FinishedParams.condition_code")
                    fl = trig[0].args[0]
                    pkt_cond = next((v for k_, v in e.ch if k_ == ("pkt", "condition_code")), None)
                    ok = ename(cond) != "NO_ERROR" and cond == pkt_cond and "remote_cfg.entity_id" in repr(fl) and "cfg.local_entity_id" not in repr(fl)
                    k = f"dest handler | EOF(cancel): condition={ename(cond)} (the EOF's), fault location={fl!r}"
                    if once(k):
                        ev.inst("C12-R3", k, "ok" if ok else "violation")
                        if not ok:
                            out.append(Finding("C12-R3", f"dest handler | EOF(cancel) | {k[28:140]}", "an EOF (cancel) does not finish the transaction with the EOF's condition and the sender as fault location", trig[0].site, witness_of(a, e)))
                # completion of a cancelled transaction
                fin_ind = [x for x in e.ev if x.kind == "env" and x.name == "user.transaction_finished_indication"]
                if fin_ind and ename(h.ew(fin_ind[0].watch, "_params.completion_disposition")) == "CANCELED" and e.exc is None:
                    mode = ename(h.ew(fin_ind[0].watch, "_params.pdu_conf.trans_mode"))
                    closure = h.ew(fin_ind[0].watch, "_params.closure_requested")
                    fin = [x for x in e.ev if x.kind == "pdu" and x.name == "FINISHED"]
                    want = mode == "ACKNOWLEDGED" or closure is True
                    ok = bool(fin) == want
                    k = f"dest handler | cancelled completion in mode {mode}, closure={closure}: Finished PDU {'built' if fin else 'not built'}"
                    if once(k):
                        ev.inst("C12-R3", k, "ok" if ok else "violation")
                        if not ok:
                            out.append(Finding("C12-R3", f"dest handler | cancelled completion | mode {mode} closure {closure} | Finished {'built' if fin else 'missing'}",
                                               "a cancelled transaction does not emit the Finished PDU exactly when closure was requested or the mode is acknowledged", fin_ind[0].site, witness_of(a, e)))
                    if fin:
                        p = fin[0].args[0]
                        pf = dict(p.get("params_fields", ()))
                        indp = rec_field(fin_ind[0].args[0], "finished_params")
                        same = all(pf.get(f) == rec_field(indp, f) for f in ("condition_code", "fault_location"))
                        k2 = f"dest handler | cancelled completion: Finished PDU carries the indicated condition and fault location: {same}"
                        if once(k2):
                            ev.inst("C12-R3", k2, "ok" if same else "violation")
                            if not same:
                                out.append(Finding("C12-R3", "dest handler | cancelled completion | Finished PDU differs from the indication", "the Finished PDU of a cancelled transaction carries another condition/fault location than the indication", fin[0].site, witness_of(a, e)))
    out += _cancel_is_final(ctx, ev)
    out += _eof_condition_consulted(ctx, ev)
    out += _eof_cancel_taken_up(ctx, ev)
    ev.extra["explanation"] = "every cancel_request edge (state x id match) and every EOF(cancel)/cancelled-completion edge of both handlers' abstract transition systems; forward reachability after a successful sender cancel"
    return out

"""C20 - PDU routing agrees with what each handler accepts (finite space, enumerated completely).

(R1) decision table of get_packet_destination over every PDU kind, compared with the table in the
property; totality; the function reads neither direction flag nor mode.  (R2) admission outcome of
both handlers for every kind x direction flag x reachable abstract state, from the ATS: routed to
the other side => always refused with a protocol exception; routed to me => never refused as
belonging to the other handler.  (R3) decision table of acknowledge_inactive_eof_pdu."""
from __future__ import annotations

from ..atsq import Standalone, step_of
from ..core import Ctx, Evidence, Finding, witness_of
from ..interp import Store
from ..libmodel import ALL_KINDS
from ..model import AnalysisError
from ..values import E, Pdu, Ref, Sym

EXPECTED = {"FD": "DEST_HANDLER", "METADATA": "DEST_HANDLER", "EOF": "DEST_HANDLER", "PROMPT": "DEST_HANDLER", "ACK_FIN": "DEST_HANDLER",
            "FINISHED": "SOURCE_HANDLER", "NAK": "SOURCE_HANDLER", "KEEP_ALIVE": "SOURCE_HANDLER", "ACK_EOF": "SOURCE_HANDLER"}
ROUTER = "cfdppy.handler.common.get_packet_destination"
ACKER = "cfdppy.handler.dest.acknowledge_inactive_eof_pdu"


def check(ctx: Ctx, ev: Evidence) -> list[Finding]:
    out: list[Finding] = []
    ev.rule("C20-R1", "routing decision table over the 9 PDU kinds equals the specified table; total; independent of direction flag and mode", 9)
    ev.rule("C20-R2", "admission agrees with routing on every (kind, direction flag, abstract state) edge of both handlers", 100)
    ev.rule("C20-R3", "acknowledge_inactive_eof_pdu: refuses ACTIVE, otherwise ACK(EOF) towards the sender with the EOF's condition code and the given status", 4)
    sa = Standalone(ctx.prog)
    table = {}
    for kind in ALL_KINDS:
        st = Store()
        pkt = sa.packet(st, kind)
        res, exs = sa.run(ROUTER, [pkt], st)
        outcomes = {r.name if isinstance(r, E) else repr(r) for r, _ in res} | {f"raises {x.cls}" for x, _ in exs}
        read = set()
        for _, s in res:
            read |= {k for k in s.heap[pkt.oid] if k in ("direction", "transmission_mode", "pdu_conf")}
        table[kind] = sorted(outcomes)
        ok = outcomes == {EXPECTED[kind]} and not read
        ev.inst("C20-R1", f"{kind} -> {sorted(outcomes)}" + (f" (reads {sorted(read)})" if read else ""), "ok" if ok else "violation")
        if outcomes != {EXPECTED[kind]}:
            out.append(Finding("C20-R1", f"{ROUTER} | {kind}", f"routing of a {kind} PDU is {sorted(outcomes)}, specified {EXPECTED[kind]}", "src/cfdppy/handler/common.py"))
        elif read:
            out.append(Finding("C20-R1", f"{ROUTER} | {kind} reads {sorted(read)}", f"routing of a {kind} PDU depends on {sorted(read)}", "src/cfdppy/handler/common.py"))
    ev.sample({"routing_table": table})
    # R2
    for which, me, other_exc in (("source", "SOURCE_HANDLER", "InvalidPduForSourceHandler"), ("dest", "DEST_HANDLER", "InvalidPduForDestHandler")):
        a = ctx.ats(which)
        seen: dict[str, str] = {}
        for e in a.edges:
            if e.label[0] != "state_machine" or e.label[1] is None:
                continue
            kind = e.label[1]
            direction = next((v.name for k, v in e.ch if k == ("pkt", "direction")), "any")
            outcome = "accepted" if e.exc is None else e.exc.cls
            key = f"{which} handler | {kind} dir={direction} step={step_of(a, e.pre)} -> {outcome}"
            if key in seen:
                continue
            bad = None
            if EXPECTED[kind] != me:
                if e.exc is None:
                    bad = f"a {kind} PDU (routed to the other handler) is accepted in step {step_of(a, e.pre)} with direction flag {direction}"
                elif not (e.exc.cls in a.h.protocol_exceptions and e.exc.origin == "explicit"):
                    bad = f"a {kind} PDU (routed to the other handler) is not refused with a protocol exception but fails with {e.exc.cls} ({e.exc.origin})"
            else:
                if e.exc is not None and e.exc.cls == other_exc:
                    bad = f"a {kind} PDU (routed to this handler) is refused as belonging to the other handler"
            seen[key] = "violation" if bad else "ok"
            ev.inst("C20-R2", key, seen[key], e.exc.site if e.exc else "")
            if bad:
                fk = f"{which} handler | {kind} | dir={direction} | {outcome}"
                out.append(Finding("C20-R2", fk, bad, e.exc.site if e.exc else "", witness_of(a, e)))
    # R3
    members = ctx.prog.lib_enums.get("TransactionStatus")
    if not members:
        raise AnalysisError("TransactionStatus members not found")
    for m in members:
        st = Store()
        pkt = sa.packet(st, "EOF")
        res, exs = sa.run(ACKER, [pkt, E("TransactionStatus", m)], st)
        desc = []
        ok = True
        if m == "ACTIVE":
            ok = not res and all(x.cls == "ValueError" for x, _ in exs) and bool(exs)
            desc.append("raises " + ",".join(sorted({x.cls for x, _ in exs})) if exs else "returns")
        else:
            if exs or not res:
                ok = False
            for r, s in res:
                if not isinstance(r, Pdu) or r.kind != "ACK_EOF":
                    ok = False
                    desc.append(f"returns {r!r}")
                    continue
                conf = r.get("pdu_conf")
                direction = s.heap[conf.oid].get("direction") if isinstance(conf, Ref) else None
                cond = r.get("condition_code_of_acked_pdu")
                status = r.get("transaction_status")
                good = (direction == E("Direction", "TOWARDS_SENDER") and status == E("TransactionStatus", m)
                        and isinstance(cond, E) and cond.cls == "ConditionCode" and s.heap[pkt.oid].get("condition_code") == cond)
                ok = ok and good
                desc.append(f"ACK(EOF) direction={direction!r} status={status!r} condition={cond!r}")
        ev.inst("C20-R3", f"status {m}: {sorted(set(desc))}", "ok" if ok else "violation")
        if not ok:
            out.append(Finding("C20-R3", f"{ACKER} | status {m}", f"acknowledge_inactive_eof_pdu with status {m}: {sorted(set(desc))}", "src/cfdppy/handler/dest.py"))
    ev.extra["explanation"] = ("complete enumeration: 9 PDU kinds through the routing helper (abstract evaluation of its source), every state_machine(kind) edge of both handlers' "
                               "abstract transition systems (kind x direction flag x reachable abstract state), 4 transaction-status values through the inactive-EOF helper")
    ev.extra["exhaustive"] = True
    ev.assume("PDU kinds are the 9 classes spacepackets can deliver (File Data, Metadata, EOF, Finished, NAK, Keep-Alive, Prompt, ACK of EOF, ACK of Finished)")
    return out

"""C04 - retry limits are honoured exactly; a silent peer cannot hang a transaction.

(R1) counter discipline of the three timer-driven procedures (EOF/ACK at the source, Finished/ACK
and deferred NAK at the destination): the count is zero whenever the timer is created, it is
incremented only on an observed expiry below the limit, together with re-arming the timer and
re-sending the PDU, and the single comparison between count and limit has the normal form
count + 1 - limit >= 0 (or == 0): hence the fault fires exactly at the configured expiry.
(R2) progress resets the count.  (R3) silent-peer trap: with no inbound PDUs (timers free) idle is
reachable from every reachable abstract state, except the two documented waits.
(R4) both handlers abandon when a fault hits the cancel exchange (sibling cross-check)."""
from __future__ import annotations

import ast

from ..atsq import ename, mode_of, state_of, step_of
from ..core import Ctx, Evidence, Finding, witness_of
from ..model import AnalysisError
from .retry import timer_oids, PROCS, check_proc, single_comparison

EXEMPT = {
    ("source", "WAITING_FOR_FINISHED", "ACKNOWLEDGED"): "documented: inactivity handling while awaiting the Finished PDU after the EOF was acknowledged is not implemented",
    ("dest", "RECEIVING_FILE_DATA", "ACKNOWLEDGED"): "documented: inactivity handling while awaiting file data / EOF is not implemented",
    ("dest", "RECEIVING_FILE_DATA", "UNACKNOWLEDGED"): "documented: inactivity handling while awaiting file data / EOF is not implemented",
    ("dest", "WAITING_FOR_METADATA", "ACKNOWLEDGED"): "documented: before the EOF arrives the receiver awaits file data / EOF (no inactivity handling)",
}


def _limit_reached(k, v) -> bool:
    """recorded comparison `counter (+1) == limit` true, or `counter (+1) >= limit` true (limit with a negative coefficient)"""
    if not (isinstance(k, tuple) and len(k) == 3 and k[0] in ("eq0", "ge") and isinstance(k[1], tuple)):
        return False
    lim = [(t, c) for t, c in k[1] if "_expiration_limit" in repr(t)]
    if not lim or len(k[1]) != 1:
        return False
    if k[0] == "eq0":
        return v is True
    return (v is True and lim[0][1] < 0) or (v is False and lim[0][1] > 0 and False)


def check(ctx: Ctx, ev: Evidence) -> list[Finding]:
    out: list[Finding] = []
    ev.rule("C04-R1", "counter discipline and exact limit comparison of the EOF/ACK, Finished/ACK and deferred NAK procedures", 12)
    ev.rule("C04-R2", "accepted missing data (file data written, Metadata accepted) during the deferred procedure resets count and timer", 2)
    ev.rule("C04-R3", "with a silent peer (no inbound PDU, timers free) every reachable abstract state can reach idle, except the documented waits", 10)
    ev.rule("C04-R4", "a retry-limit fault declared while a cancellation is already in progress abandons the transaction (both handlers, on every ATS edge)", 2)
    src, dst = ctx.ats("source"), ctx.ats("dest")
    for key in ("eof_ack", "fin_ack", "nak"):
        p = PROCS[key]
        a = src if p.which == "source" else dst
        check_proc(a, "C04", "C04-R1", p, ev, out)
        single_comparison(ctx.prog, f"cfdppy.handler.{p.which}", p, "C04-R1", ev, out)
    # R2
    a = dst
    h = a.h
    seen: set[str] = set()
    nak = PROCS["nak"]
    for e in a.edges:
        if e.exc is not None:
            continue
        for i, x in enumerate(e.ev):
            active = h.ew(x.watch, "_params.acked_params.deferred_lost_segment_detection_active")
            what = None
            if x.kind == "env" and x.name == "vfs.write_data" and x.args[-1][0] == "ret" and active is True and ename(h.ew(x.watch, "states.step")) == "WAITING_FOR_MISSING_DATA":
                what = "File Data written while waiting for missing data"
            elif x.kind == "env" and x.name == "user.metadata_recv_indication" and active is True:
                what = "Metadata accepted while the deferred procedure is active"
            if not what:
                continue
            later = e.ev[i:]
            still_active = any(True for _ in [0]) and (a.h.wget(e.post, "_params.acked_params.deferred_lost_segment_detection_active") is True)
            zero = any(y.kind == "store" and y.name == nak.counter and y.args[0] == 0 for y in e.ev)
            rst = any(y.kind == "timer" and y.name == "reset" for y in e.ev)
            ok = (zero and rst) or not still_active
            k = f"{what}: count reset={zero}, timer reset={rst}" + ("" if still_active else " (procedure finished in this call)")
            if k not in seen:
                seen.add(k)
                ev.inst("C04-R2", k, "ok" if ok else "violation", x.site)
                if not ok:
                    out.append(Finding("C04-R2", f"dest handler | {what} | no reset", f"{what} but the NAK activity count and timer are not reset", x.site, witness_of(a, e)))
    # R3
    for which, a in (("source", src), ("dest", dst)):
        def cls_of(i: int) -> tuple:
            w = a.h.watch(a.nodes[i])
            if which == "dest":
                extra = ename(a.h.wget(w, "_params.completion_disposition"))
                if a.h.wget(w, "_params.acked_params.deferred_lost_segment_detection_active") is True:
                    extra += ",deferred-active"
            else:
                extra = "eof-condition " + ename(a.h.wget(w, "_params.cond_code_eof"))
            return (step_of(a, w), mode_of(a, w), extra)

        def exempt_of(key: tuple) -> str | None:
            step, mode, extra = key
            if which == "dest" and "deferred-active" in extra:
                return None  # the EOF was received and the NAK procedure runs: not the documented "awaiting file data / EOF" wait
            return EXEMPT.get((which, step, mode))

        silent = lambda e: e.label in (("state_machine", None), ("drain",))  # noqa: E731
        idle = {i for i in a.expanded if state_of(a, a.h.watch(a.nodes[i])) == "IDLE"}
        exempt_nodes = {i for i in a.expanded if exempt_of(cls_of(i))}
        ok_nodes = a.can_reach(idle | exempt_nodes, silent)
        trapped = [i for i in sorted(a.expanded) if i not in ok_nodes]
        classes: dict[tuple, int] = {}
        for i in sorted(a.expanded):
            classes[cls_of(i)] = classes.get(cls_of(i), 0) + 1
        tset = set(trapped)
        succ: dict[int, set[int]] = {i: set() for i in trapped}
        for e in a.edges:
            if e.src in tset and e.dst is not None and e.dst in tset and silent(e):
                succ[e.src].add(e.dst)
        reach: dict[int, set[int]] = {}
        for i in trapped:
            seen_n = {i}
            work = [i]
            while work:
                n = work.pop()
                for m in succ[n]:
                    if m not in seen_n:
                        seen_n.add(m)
                        work.append(m)
            reach[i] = seen_n
        cores: dict[tuple, int] = {}
        for i in trapped:
            if all(i in reach[m] for m in reach[i]):  # bottom strongly connected component
                steps = tuple(sorted({step_of(a, a.h.watch(a.nodes[m])) for m in reach[i]}))
                cores.setdefault((steps, mode_of(a, a.h.watch(a.nodes[i]))), i)
        trapped_classes = {cls_of(i) for i in trapped}
        for key, n in sorted(classes.items()):
            step, mode, extra = key
            ex = exempt_of(key)
            if ex:
                txt = "exempt wait - " + ex
            elif key in trapped_classes:
                txt = "leads only into a silent-peer trap (see the trap core finding)"
            else:
                txt = "idle (or a documented wait) reachable by timer expiries alone"
            ev.inst("C04-R3", f"{which} handler | step {step}, mode {mode}, {extra} ({n} abstract states): {txt}", "ok" if key not in trapped_classes or ex else "violation")
        for (steps, mode), node in sorted(cores.items()):
            path = a.path_to(node)
            out.append(Finding("C04-R3", f"{which} handler | silent-peer trap | cycle through {', '.join(steps)} | mode {mode}",
                               f"with a silent peer the handler never returns to idle: timer expiries cycle through {', '.join(steps)} forever ({len(trapped)} abstract states lead only into this cycle)",
                               "", {"path_to_state": [str(x.label) for x in path][-12:], "state": a.describe(node)}))
    # R4 (semantic sibling cross-check): a fault declared while the transaction is already being cancelled must abandon
    for which, a in (("source", src), ("dest", dst)):
        n_ok = n_bad = 0
        bad_edge = None
        for e in a.edges:
            if e.exc is not None:
                continue
            if which == "source":
                cancelling = ename(a.h.wget(e.pre, "_params.cond_code_eof")) not in ("None", "NO_ERROR", "'<na>'")
            else:
                cancelling = ename(a.h.wget(e.pre, "_params.completion_disposition")) == "CANCELED"
            if not cancelling or state_of(a, e.pre) != "BUSY":
                continue
            faults = [x for x in e.ev if x.kind == "env" and x.name in ("fault.abandoned_cb", "fault.notice_of_cancellation_cb")]
            # the limit itself: a recorded comparison of a retry counter with a configured *_expiration_limit that came out true
            limit_hit = any(_limit_reached(k, v) for k, v in e.ch)
            if not faults and not limit_hit:
                continue
            abandoned = bool(faults) and all(x.name == "fault.abandoned_cb" for x in faults) and state_of(a, e.post) == "IDLE"
            if abandoned:
                n_ok += 1
            else:
                n_bad += 1
                bad_edge = bad_edge or e
        k = f"{which} handler | limit fault during the cancel exchange => abandoned and idle: {n_ok} paths abandon, {n_bad} do not"
        ev.inst("C04-R4", k, "ok" if n_bad == 0 and n_ok > 0 else "violation")
        if n_bad or not n_ok:
            out.append(Finding("C04-R4", f"{which} handler | limit fault during the cancel exchange does not abandon",
                               "a retry-limit fault declared while the transaction is already being cancelled re-cancels instead of abandoning (the sibling handler abandons): the cancel exchange can repeat forever",
                               "", witness_of(a, bad_edge) if bad_edge is not None else None))
    # R5: the awaited acknowledgement wins over a timer that expired in the same call; the limit decision consults the configured limit
    ev.rule("C04-R5", "an edge that accepts the awaited acknowledgement in its wait step neither re-sends the acknowledged PDU nor declares the limit fault (the acknowledgement wins over a timer that expired meanwhile)", 2)
    for which, a, lab, pdu, wait in (("dest", dst, ("state_machine", "ACK_FIN"), "FINISHED", "WAITING_FOR_FINISHED_ACK"),
                                      ("source", src, ("state_machine", "ACK_EOF"), "EOF", "WAITING_FOR_EOF_ACK")):
        n_acc = 0
        bad = None
        for e in a.edges:
            if e.label != lab or e.exc is not None or state_of(a, e.pre) != "BUSY" or a.h.wget(e.pre, "_pdus_to_be_sent"):
                continue
            pre_s, post_s = step_of(a, e.pre), step_of(a, e.post)
            if pre_s != wait:
                continue  # the PDU being acknowledged must already have been sent
            accepted = pre_s != post_s and (state_of(a, e.post) == "IDLE" or post_s in ("WAITING_FOR_FINISHED", "NOTICE_OF_COMPLETION"))
            if not accepted:
                continue
            n_acc += 1
            resent = [x for x in e.ev if x.kind == "pdu" and x.name == pdu]
            faults = [x for x in e.ev if x.kind == "env" and x.name.startswith("fault.") and "ACK_LIMIT" in ename(x.args[1])]
            if resent or faults:
                bad = bad or (e, "re-sends the " + pdu + " PDU" if resent else "declares the positive-ACK limit fault")
        k = f"{which} handler | {n_acc} edges accept {lab[1]}: none re-sends {pdu} or declares the limit fault: {bad is None}"
        ev.inst("C04-R5", k, "ok" if bad is None and n_acc else "violation")
        if n_acc == 0:
            raise AnalysisError(f"no edge of the {which} ATS accepts {lab[1]} (rule blind)")
        if bad is not None:
            out.append(Finding("C04-R5", f"{which} handler | accepting {lab[1]} also {bad[1]}",
                               f"a call that receives the awaited {lab[1]} after the timer interval services the timer first: it {bad[1]} although the acknowledgement is in hand", "", witness_of(a, bad[0])))
    ev.extra["explanation"] = "timer / counter / fault / PDU events on every ATS edge of both handlers for the three retry procedures; backward reachability of idle over packet-less edges from every reachable abstract state"
    ev.assume("Countdown expires after its interval (spacepackets); a timer created or re-armed in a call does not expire within that call")
    return out

"""C11-R2: reset path == fresh block.

1. Build the abstract handler (fresh).  2. Mark every field of the handler's own object tree as
stale (`E('$STALE', 'Class.field')`).  3. Run the function(s) that put the handler back to idle.
4. Compare the tree with the fresh one; every field that is still marked, or whose value differs,
is a *candidate*.  5. From the post-reset store, explore follow-up transactions; a candidate is a
violation iff some path *uses* the left-over value (test, arithmetic, argument of a PDU, filestore,
indication or library call) before overwriting it."""
from __future__ import annotations

import ast
from typing import Any

from ..ats import Harness, labels_for
from ..core import Ctx, Evidence, Finding
from ..interp import Store
from ..model import AnalysisError
from ..values import E, Holder, Lazy, Lst, Ref, Sym

# fields that legitimately outlive a transaction (frozen table, one reason each)
CARRY_OVER = {
    "SourceHandler._pdus_to_be_sent": "PDUs of the finished transaction still to be retrieved by the user (part of its output)",
    "DestHandler._pdus_to_be_sent": "PDUs of the finished transaction still to be retrieved by the user (part of its output)",
    "SourceStateWrapper._num_packets_ready": "counter of the queue above",
    "DestStateWrapper._num_packets_ready": "counter of the queue above",
}


def _tree(h: Harness, st: Store) -> dict[str, tuple[int, str, str]]:
    """access path -> (oid, class, field) for every non-environment field reachable from the handler"""
    out: dict[str, tuple[int, str, str]] = {}
    seen = set()

    def rec(oid: int, path: str) -> None:
        if oid in seen or oid in h.env_oids:
            return
        seen.add(oid)
        obj = st.heap[oid]
        cls = obj["$cls"].split(".")[-1]
        for k in sorted(obj):
            if k.startswith("$"):
                continue
            out[f"{path}.{k}"] = (oid, cls, k)
            v = obj[k]
            if isinstance(v, Ref):
                rec(v.oid, f"{path}.{k}")

    rec(h.self_ref.oid, "self")
    return out


def _val(st: Store, oid: int, k: str) -> Any:
    return st.heap[oid].get(k, "<absent>")


def _abs(v: Any) -> Any:
    if isinstance(v, Ref):
        return "<obj>"
    if isinstance(v, (Sym, bytes, str)) or (isinstance(v, int) and not isinstance(v, bool)):
        return "<value>"
    if isinstance(v, Lst):
        return ("list", len(v.items))
    return v


def _reset_functions(h: Harness) -> list[tuple[str, list]]:
    """functions of the handler class that store IDLE into the state (the reset path), with the
    argument vectors to run them with"""
    out = []
    for m in h.ci.methods.values():
        stores_idle = False
        for n in ast.walk(m.node):
            if isinstance(n, ast.Assign) and ast.unparse(n.value).endswith("CfdpState.IDLE") and any(
                    isinstance(t, ast.Attribute) and t.attr == "state" for t in n.targets):
                stores_idle = True
        if stores_idle:
            params = m.params[1:]
            if not params:
                out.append((m.name, []))
            elif len(params) == 1:
                out.append((m.name, [False]))
                out.append((m.name, [True]))
            else:
                raise AnalysisError(f"reset path {m.qualname} has an unexpected signature")
    if not out:
        raise AnalysisError(f"no reset path (store of CfdpState.IDLE) found in {h.cls}")
    return out


def reset_vs_fresh(ctx: Ctx, ev: Evidence) -> list[Finding]:
    findings: list[Finding] = []
    prog = ctx.prog
    loads = {n.attr for mi in prog.modules.values() for n in ast.walk(mi.tree) if isinstance(n, ast.Attribute) and isinstance(n.ctx, ast.Load)}
    for which in ("source", "dest"):
        h = Harness(prog, which)
        h.ip.track_stale = True
        fresh = h.node0
        tree = _tree(h, fresh)
        for fname, args in _reset_functions(h):
            dirty = fresh.fork()
            for path, (oid, cls, k) in tree.items():
                v = fresh.heap[oid][k]
                if isinstance(v, Ref) and v.oid not in h.env_oids:
                    continue  # nested block: its fields are dirtied individually
                if isinstance(v, (Ref, Lazy)):
                    continue  # user-provided environment object
                dirty.set_field(oid, k, E("$STALE", f"{cls}.{k}"))
            # the queue and its counter are excluded from the comparison (see CARRY_OVER) but must stay well-typed
            for path, (oid, cls, k) in tree.items():
                if f"{cls}.{k}" in CARRY_OVER:
                    dirty.set_field(oid, k, fresh.heap[oid][k])
            # nullable blocks that are None in a fresh handler are non-null after a transaction
            m = prog.find_method(h.cls, fname)
            exs: list = []
            res = h.ip.call_repo(m, h.self_ref, list(args), {}, dirty, exs, "<reset>")
            if len(res) != 1 or exs:
                raise AnalysisError(f"reset path {h.cls}.{fname}{tuple(args)} is not deterministic on the marked block ({len(res)} results, {[e.cls for e, _ in exs]})")
            after = res[0][1]
            after_tree = _tree(h, after)
            candidates: dict[str, tuple[int, str, str, Any, Any]] = {}
            for path, (oid, cls, k) in tree.items():
                fq = f"{cls}.{k}"
                fv = fresh.heap[oid][k]
                if path not in after_tree:
                    if isinstance(fv, Ref):
                        continue
                    # field exists in a fresh block but not after the reset (e.g. set by the constructor only)
                    holder_path = path.rsplit(".", 1)[0]
                    if holder_path in after_tree or holder_path == "self":
                        hoid = h.self_ref.oid if holder_path == "self" else None
                        if hoid is None:
                            po, _, pk = after_tree[holder_path]
                            rv = after.heap[po][pk]
                            hoid = rv.oid if isinstance(rv, Ref) else None
                        if hoid is not None:
                            candidates[path] = (hoid, cls, k, _abs(fv), "<absent>")
                    continue
                aoid, _, _ = after_tree[path]
                av = after.heap[aoid][k]
                if fq in CARRY_OVER:
                    ev.inst("C11-R2", f"{which}.{fname}{tuple(args)} | {path} carried over: {CARRY_OVER[fq]}", "ok")
                    continue
                if isinstance(fv, Ref) and isinstance(av, Ref):
                    continue
                if isinstance(av, E) and av.cls == "$STALE":
                    candidates[path] = (aoid, cls, k, _abs(fv), "<not reset>")
                elif _abs(fv) != _abs(av):
                    candidates[path] = (aoid, cls, k, _abs(fv), _abs(av))
                else:
                    ev.inst("C11-R2", f"{which}.{fname}{tuple(args)} | {path} reset to the fresh value", "ok")
            if not candidates:
                continue
            # stale-read exploration from the post-reset store
            start = after.fork()
            never_read = {}
            for path, (oid, cls, k, fv, av) in candidates.items():
                if k not in loads:
                    never_read[path] = (cls, k, fv, av)
                    # cannot be read: no load of that attribute anywhere in the package
                    if isinstance(start.heap[oid].get(k), E) or av != "<not reset>":
                        start.set_field(oid, k, fresh.heap[tree[path][0]][k] if path in tree else None)
                    continue
                start.set_field(oid, k, E("$STALE", f"{cls}.{k}"))
            for path, (cls, k, fv, av) in never_read.items():
                ev.inst("C11-R2", f"{which}.{fname}{tuple(args)} | {path}: fresh={fv!r} after-reset={av!r}; attribute is never loaded anywhere: cannot be read stale", "ok")
            live = {p: c for p, c in candidates.items() if p not in never_read}
            uses = _explore_stale(h, start, 120 if ctx.tier == "quick" else 3000)
            for path, (oid, cls, k, fv, av) in live.items():
                fq = f"{cls}.{k}"
                hit = uses.get(fq)
                key = f"{which} handler | {fq} after {fname}"
                if hit:
                    ev.inst("C11-R2", f"{which}.{fname}{tuple(args)} | {path}: fresh={fv!r} after-reset={av!r}; READ STALE at {hit[1]}", "violation")
                    findings.append(Finding("C11-R2", key,
                                            f"{fq} is {av!r} after the reset path but {fv!r} in a fresh block, and the next transaction uses the left-over value ({hit[0]}) before writing it",
                                            hit[1], {"call": hit[2], "use": hit[0]}))
                else:
                    ev.inst("C11-R2", f"{which}.{fname}{tuple(args)} | {path}: fresh={fv!r} after-reset={av!r}; always written before it is read", "ok")
    return findings


def _explore_stale(h: Harness, start: Store, max_nodes: int) -> dict[str, tuple[str, str, str]]:
    """BFS from the post-reset store; nodes without any stale marker are not expanded"""
    uses: dict[str, tuple[str, str, str]] = {}
    n0 = h.project(start)
    seen = {n0.key()}
    work = [n0]
    mine = {"source": ("FINISHED", "NAK", "KEEP_ALIVE", "ACK_EOF"), "dest": ("FD", "METADATA", "EOF", "PROMPT", "ACK_FIN")}[h.which]
    # PDU kinds routed to the other handler are refused by the admission checks before any state is read (C20-R2)
    labels = [l for l in h.api_inputs("quick") if not (l[0] == "state_machine" and l[1] is not None and l[1] not in mine) and l[0] != "props"]
    expanded = 0

    def has_marker(st: Store) -> bool:
        for oid, obj in st.heap.items():
            if oid in h.env_oids:
                continue
            for v in obj.values():
                if isinstance(v, E) and v.cls == "$STALE":
                    return True
        return False

    while work and expanded < max_nodes:
        node = work.pop(0)
        expanded += 1
        pre = h.watch(node)
        for label in labels_for(h, pre, labels, False):
            rets, excs = h.run(node, label)
            for _, s in list(rets) + [(None, s) for _, s in excs]:
                for e in s.ev:
                    if e.kind == "stale-use" and e.name not in uses:
                        uses[e.name] = (e.args[0], e.site, label[0] + (f"({label[1]})" if len(label) > 1 else "()"))
            for r, s in rets:
                p = h.project(s)
                if has_marker(p) and p.key() not in seen:
                    seen.add(p.key())
                    work.append(p)
    return uses

"""C06 - NAKs request exactly what is missing: structural clauses only.

The set equality over arrival histories is NOT decided.  Decided over the NAK-construction events
of the destination handler's abstract transition system and the syntax tree of the deferred
builder: (R1) the metadata request (0,0) is built only while metadata is missing; (R2) the deferred
builder's batch is flushed exactly when it reaches the capacity derived from the maximum packet
length, nothing is dropped on a flush and the remainder is flushed after the loop; (R3) the
deferred NAK's requests are the tracker's items (plus (0,0)) with scope (0, EOF file size); the
immediate NAK requests (last end offset, offset) with scope end offset+len; (R4) nothing missing =>
no NAK and completion; NAKs from the deferred procedure only while something is recorded missing;
(R5) the EOF handler treats both orderings of progress vs EOF size (tail gap / file size error)."""
from __future__ import annotations

import ast

from ..atsq import ename
from ..core import Ctx, Evidence, Finding, witness_of
from ..model import AnalysisError, loc, norm
from ..values import Lst, Pdu, Tup

DH = "cfdppy.handler.dest.DestHandler"


def _no_stored_pdu_requeued(prog, ev: Evidence) -> list[Finding]:
    ev.rule("C06-R8", "every PDU queued for sending is constructed in the same function activation, never taken from the handler's or the transaction's stored state", 3)
    out: list[Finding] = []
    n = 0
    # the queueing helper(s) are found by content: methods that append their parameter to the send queue
    queuers = {"_add_packet_to_be_sent"}
    for fi in prog.functions.values():
        if fi.cls == DH and len(fi.params) == 2 and any(isinstance(c, ast.Call) and isinstance(c.func, ast.Attribute) and c.func.attr == "append"
                                                         and ast.unparse(c.func.value).endswith("_pdus_to_be_sent") for c in ast.walk(fi.node)):
            queuers.add(fi.name)
    for fi in prog.functions.values():
        if fi.cls != DH or fi.name in queuers:
            continue
        stored_locals: dict[str, str] = {}
        for node in sorted((x for x in ast.walk(fi.node) if isinstance(x, (ast.For, ast.Assign, ast.Call))), key=lambda x: (x.lineno, x.col_offset)):
            if isinstance(node, ast.For) and isinstance(node.target, ast.Name):
                t = ast.unparse(node.iter)
                if t.startswith(("self._params.", "self.")) and "(" not in t and not t.startswith("self._params.acked_params.lost_seg_tracker"):
                    stored_locals[node.target.id] = t
            elif isinstance(node, ast.Assign) and len(node.targets) == 1 and isinstance(node.targets[0], ast.Name):
                t = ast.unparse(node.value)
                if isinstance(node.value, (ast.Attribute, ast.Subscript)) and t.startswith(("self._params.", "self._")) and "pdu" in t.lower():
                    stored_locals[node.targets[0].id] = t
                else:
                    stored_locals.pop(node.targets[0].id, None)
            elif isinstance(node, ast.Call) and isinstance(node.func, ast.Attribute) and node.func.attr in queuers or (
                    isinstance(node, ast.Call) and isinstance(node.func, ast.Attribute) and node.func.attr == "append" and ast.unparse(node.func.value).endswith("_pdus_to_be_sent")):
                if not node.args:
                    continue
                n += 1
                arg = node.args[0]
                root = arg
                while isinstance(root, (ast.Attribute, ast.Subscript)):
                    root = root.value
                src_ = None
                if isinstance(root, ast.Name) and root.id in stored_locals:
                    src_ = stored_locals[root.id]
                elif isinstance(root, ast.Name) and root.id == "self" and isinstance(arg, (ast.Attribute, ast.Subscript)):
                    src_ = ast.unparse(arg)
                ev.inst("C06-R8", f"{fi.name}: `{norm(node)[:70]}` queues " + ("a PDU taken from stored state " + src_ if src_ else "a PDU built in this activation"), "violation" if src_ else "ok", loc(fi, node))
                if src_:
                    out.append(Finding("C06-R8", f"{fi.qualname} | queues a stored PDU from {src_}",
                                       f"`{norm(node)[:80]}` sends again a PDU object kept in {src_}: it describes the state of an earlier call (requests for data received meanwhile, a metadata request although the Metadata arrived)", loc(fi, node)))
    if n == 0:
        raise AnalysisError("no call queueing a PDU found in the destination handler (anchor vanished)")
    return out


def check(ctx: Ctx, ev: Evidence) -> list[Finding]:
    out: list[Finding] = []
    prog = ctx.prog
    ev.rule("C06-R1", "(0,0) is requested only while metadata is missing", 2)
    ev.rule("C06-R2", "deferred NAK batching: capacity from the maximum packet length; append-then-flush at capacity; remainder flushed after the loop", 4)
    ev.rule("C06-R3", "requests come from the tracker (deferred) resp. the detected gap (immediate); scopes enclose them", 3)
    ev.rule("C06-R4", "nothing missing => no NAK and completion; deferred NAKs only while something is recorded missing", 2)
    ev.rule("C06-R6", "a detected gap is recorded in the tracker whatever the NAK mode; file data before the Metadata records the whole extent from offset 0", 3)
    ev.rule("C06-R5", "EOF (no error): progress > EOF size declares the size fault, progress < EOF size records the tail gap", 2)
    # ---- R8 (syntax tree, before anything else): every PDU handed to the send queue was built in that call - a PDU object kept in
    # the handler's or the transaction's state and queued again describes an EARLIER state of the reception
    out += _no_stored_pdu_requeued(prog, ev)
    try:
        a = ctx.ats("dest")
    except AnalysisError as exc_:
        if not out:
            raise
        print(f"note: {exc_} - reported together with the violation(s) below")
        return out
    h = a.h
    seen: set[str] = set()

    def rep(rule: str, k: str, ok: bool, msg: str, e, site: str = "") -> None:
        if (k, ok) in seen:
            return  # an earlier ok never masks a violation of the same key
        seen.add((k, ok))
        ev.inst(rule, k, "ok" if ok else "violation", site)
        if not ok:
            out.append(Finding(rule, f"dest handler | {k[:150]}", msg, site, witness_of(a, e) if e is not None else None))

    for e in a.edges:
        evs = e.ev
        for i, x in enumerate(evs):
            if x.kind != "pdu" or x.name != "NAK":
                continue
            p: Pdu = x.args[0]
            fn = x.func.split(".")[-1]
            reqs = p.get("segment_requests")
            items = list(reqs.items) if isinstance(reqs, Lst) else []
            mm = h.ew(x.watch, "_params.acked_params.metadata_missing")
            tr = h.ew(x.watch, "_params.acked_params.lost_seg_tracker.$n")
            has00 = any(isinstance(t, Tup) and t.items == (0, 0) for t in items)
            if has00:
                rep("C06-R1", f"(0,0) requested in {fn} with metadata missing = {mm}", mm is True, "the metadata request (0,0) is emitted although the Metadata PDU was received", e, x.site)
            sos, eos = p.get("start_of_scope"), p.get("end_of_scope")
            # the three NAK kinds are told apart by what they request, not by the name of the function that builds them
            if repr(eos) == "$_DestFileParams.file_size_eof" or any("tracker.lost_segments" in repr(t) for t in items):
                kind = "deferred"
            elif mm is True:
                kind = "before-metadata"
            elif any("last_end_offset" in repr(t) for t in items) or "pkt.offset" in repr(eos):
                kind = "immediate"
            else:
                kind = "unknown"
            if kind == "deferred":
                others = [t for t in items if not (isinstance(t, Tup) and t.items == (0, 0))]
                from_tracker = all("tracker.lost_segments" in repr(t) and "lin" not in repr(t) for t in others)
                ok = sos == 0 and repr(eos) == "$_DestFileParams.file_size_eof" and from_tracker and not (isinstance(reqs, Lst) and reqs.more)
                rep("C06-R3", f"deferred NAK: scope=({sos!r}, {eos!r}), {len(others)} request(s) taken from the tracker unmodified: {from_tracker}", ok,
                    "a deferred NAK PDU does not have scope (0, EOF file size) with requests taken unmodified from the lost-segment tracker", e, x.site)
                rep("C06-R4", f"deferred NAK built with tracker {'non-empty' if tr != 0 else 'EMPTY'}, metadata missing={mm}", tr != 0 or mm is True,
                    "the deferred procedure sends a NAK although nothing is recorded missing", e, x.site)
                if not items:
                    rep("C06-R3", "deferred NAK with an empty request list", False, "a NAK PDU without segment requests is built", e, x.site)
            elif kind == "immediate":
                ok = sos == 0 and len(items) == 1 and isinstance(items[0], Tup) and repr(items[0].items[0]) == "$_AckedModeParams.last_end_offset" and repr(items[0].items[1]) == "pkt.offset" \
                    and "pkt.offset" in repr(eos) and "len(pkt.file_data)" in repr(eos)
                rep("C06-R3", f"immediate NAK: scope=({sos!r}, {eos!r}), request={items[0] if items else None!r}", ok,
                    "an immediate NAK does not request exactly (end of the last segment, start of this segment) within scope (0, offset + length)", e, x.site)
            elif kind == "before-metadata":
                ok = sos == 0 and all(isinstance(t, Tup) and (t.items == (0, 0) or (t.items[0] == 0 and t.items[1] == eos)) for t in items) and bool(items)
                rep("C06-R3", f"NAK before metadata: scope=({sos!r}, {eos!r}), requests={items!r}", ok, "the NAK sent for file data without metadata does not request (0,0) / (0, progress) within scope (0, progress)", e, x.site)
            else:
                rep("C06-R3", f"NAK of unrecognised shape built in {fn}: scope=({sos!r}, {eos!r}) requests={items!r}", False, f"a NAK PDU with scope ({sos!r}, {eos!r}) and requests {items!r} matches none of the three NAK procedures", e, x.site)
        done = [x for x in evs if x.kind == "store" and x.name == "_AckedModeParams.deferred_lost_segment_detection_active" and x.args[0] is False and not x.func.endswith("__init__")]
        for x in done:
            i = evs.index(x)
            later_nak = [y for y in evs[i:] if y.kind == "pdu" and y.name == "NAK"]
            completes = any(y.kind == "store" and y.name == "DestStateWrapper.step" and ename(y.args[0]) == "TRANSFER_COMPLETION" for y in evs[max(0, i - 3):i + 1])
            rep("C06-R4", f"nothing missing: deferred procedure ends with completion={completes}, NAKs afterwards={len(later_nak)}", completes and not later_nak,
                "with nothing recorded missing the deferred procedure does not proceed to completion without sending a NAK", e, x.site)
    # ---- R6: gap bookkeeping vs NAK mode, extent recorded before metadata
    from ..atsq import cfg_of
    modes_gap: set = set()
    for e in a.edges:
        if e.label != ("state_machine", "FD") or e.exc is not None:
            continue
        for x in e.ev:
            if x.kind == "tracker" and x.name == "add_lost_segment":
                seg = x.args[0]
                mm = h.ew(x.watch, "_params.acked_params.metadata_missing")
                if mm is True:
                    start = seg.items[0] if isinstance(seg, Tup) else None
                    rep("C06-R6", f"file data before the Metadata: recorded extent starts at {start!r}", start == 0,
                        "file data received before the Metadata records only part of the extent received so far: earlier holes are never requested", e, x.site)
                elif isinstance(seg, Tup) and "last_end_offset" in repr(seg.items[0]):
                    modes_gap.add(cfg_of(e, "remote_cfg.immediate_nak_mode"))
    for mode in (True, False):
        ok = mode in modes_gap or "<untested>" in modes_gap
        ev.inst("C06-R6", f"gap (last end, offset) recorded in the tracker with immediate_nak_mode={mode}: {ok}", "ok" if ok else "violation")
        if not ok:
            out.append(Finding("C06-R6", f"dest handler | gap not recorded with immediate_nak_mode={mode}", f"with immediate_nak_mode={mode} a detected gap is not recorded in the lost-segment tracker: it is never requested", "src/cfdppy/handler/dest.py"))
    # ---- R2 syntax tree of the deferred builder
    # anchor by content: the function of the destination handler that asks the library for the NAK capacity
    cands = [f for f in prog.functions.values() if f.cls == DH and any(isinstance(n, ast.Call) and "get_max_seg_reqs_for_max_packet_size_and_pdu_cfg" in ast.unparse(n.func) for n in ast.walk(f.node))]
    if len(cands) != 1:
        raise AnalysisError(f"deferred NAK builder not found (functions deriving the NAK capacity: {len(cands)})")
    fi = cands[0]
    from ..astq import normalised
    import types as _types
    # extract-method / local-alias reshapings are undone before the idiom is matched
    fi = _types.SimpleNamespace(node=normalised(prog, cands[0]), qualname=cands[0].qualname, file=cands[0].file, module=cands[0].module)
    caps = [s for s in ast.walk(fi.node) if isinstance(s, ast.Assign) and isinstance(s.value, ast.Call) and "get_max_seg_reqs_for_max_packet_size_and_pdu_cfg" in ast.unparse(s.value.func)]
    ok = len(caps) == 1 and "max_packet_len" in ast.unparse(caps[0].value.args[0]) and "pdu_conf" in ast.unparse(caps[0].value.args[1])
    cap = ast.unparse(caps[0].targets[0]) if caps else "?"
    ev.inst("C06-R2", f"capacity {cap} = get_max_seg_reqs_...(remote max_packet_len, pdu_conf)", "ok" if ok else "violation", loc(cands[0], fi.node))
    if not ok:
        out.append(Finding("C06-R2", f"{fi.qualname} | capacity", "the per-PDU request capacity is not derived from the remote maximum packet length and the PDU configuration", loc(cands[0], fi.node)))
    loops = [n for n in ast.walk(fi.node) if isinstance(n, ast.For)]
    if len(loops) != 1:
        raise AnalysisError(f"deferred NAK builder: expected one batching loop, found {len(loops)}")
    lp = loops[0]
    body = lp.body
    app_i = next((i for i, s in enumerate(body) if isinstance(s, ast.Expr) and isinstance(s.value, ast.Call) and isinstance(s.value.func, ast.Attribute) and s.value.func.attr == "append"), None)
    batch = ast.unparse(body[app_i].value.func.value) if app_i is not None else "?"
    first_is_append = app_i == 0
    ev.inst("C06-R2", f"every tracked range is appended to {batch} unconditionally first: {first_is_append}", "ok" if first_is_append else "violation", loc(cands[0], lp))
    if not first_is_append:
        out.append(Finding("C06-R2", f"{fi.qualname} | append not first", "a tracked range can be skipped: the append is not the first unconditional statement of the batching loop", loc(cands[0], lp)))
    flush = [s for s in body if isinstance(s, ast.If)]
    okf = False
    if len(flush) == 1 and isinstance(flush[0].test, ast.Compare) and len(flush[0].test.ops) == 1 and isinstance(flush[0].test.ops[0], (ast.Eq, ast.GtE)):
        t = ast.unparse(flush[0].test)
        sends = any(isinstance(n, ast.Call) and "NakPdu" in ast.unparse(n.func) for n in ast.walk(flush[0]))
        resets = any(isinstance(s, ast.Assign) and ast.unparse(s.targets[0]) == batch and isinstance(s.value, ast.List) and not s.value.elts for s in flush[0].body)
        no_skip = not any(isinstance(n, (ast.Continue, ast.Break)) for n in ast.walk(flush[0]))
        okf = f"len({batch})" in t and cap in t and sends and resets and no_skip and body.index(flush[0]) > (app_i or 0)
    ev.inst("C06-R2", f"flush when len({batch}) reaches {cap}: sends, resets the batch, skips nothing: {okf}", "ok" if okf else "violation", loc(cands[0], lp))
    if not okf:
        out.append(Finding("C06-R2", f"{fi.qualname} | flush test", "the batch is not flushed exactly when it reaches the capacity (send, reset, no skipped element)", loc(cands[0], lp)))
    after = [s for s in fi.node.body if isinstance(s, ast.If) and s.lineno > lp.lineno and f"len({batch}) > 0" in ast.unparse(s.test)]
    okr = len(after) == 1 and any(isinstance(n, ast.Call) and "NakPdu" in ast.unparse(n.func) for n in ast.walk(after[0]))
    ev.inst("C06-R2", f"remainder flushed after the loop: {okr}", "ok" if okr else "violation", loc(cands[0], lp))
    if not okr:
        out.append(Finding("C06-R2", f"{fi.qualname} | remainder", "requests left in the batch after the loop are not sent", loc(cands[0], lp)))
    # ---- R5 (on the ATS: which EOF (no error) edges of an acknowledged reception record the tail gap / declare the size fault)
    tail = size_fault = False
    n_eof = 0
    for e in a.edges:
        if e.label != ("state_machine", "EOF") or e.exc is not None:
            continue
        if not any(k == ("pkt", "condition_code") and ename(v) == "NO_ERROR" for k, v in e.ch):
            continue
        n_eof += 1
        for x in e.ev:
            if x.kind == "tracker" and x.name == "add_lost_segment" and isinstance(x.args[0], Tup) and len(x.args[0].items) == 2:
                lo, hi = (repr(t) for t in x.args[0].items)
                if "progress" in lo and ("file_size" in hi):
                    tail = True
            if x.kind == "env" and x.name.startswith("fault.") and ename(x.args[1]) == "FILE_SIZE_ERROR":
                size_fault = True
    if n_eof == 0:
        raise AnalysisError("no EOF (no error) edge in the destination ATS")
    ev.inst("C06-R5", f"progress > EOF size handled (size fault declared on some EOF edge): {size_fault}", "ok" if size_fault else "violation")
    ev.inst("C06-R5", f"progress < EOF size handled (tail gap (progress, EOF size) recorded on some EOF edge): {tail}", "ok" if tail else "violation")
    if not size_fault:
        out.append(Finding("C06-R5", "dest handler | EOF (no error) | progress > EOF size", "an EOF announcing fewer bytes than already received does not declare the file size fault", ""))
    if not tail:
        out.append(Finding("C06-R5", "dest handler | EOF (no error) | tail gap", "the gap between the last received byte and the EOF file size is not recorded as lost", ""))
    # R7: objects handed to a PDU constructor are not mutated afterwards (the PDU keeps the list by reference)
    from ..astq import mutation_after_escape
    ev.rule("C06-R7", "a list handed to a PDU constructor is not mutated afterwards in the same function (spacepackets PDUs keep their list arguments by reference and fix length fields at construction)", 1)
    n_sites = 0
    for fi in prog.functions.values():
        if fi.cls != DH:
            continue
        is_pdu_ctor = lambda c: isinstance(c.func, ast.Name) and c.func.id.endswith("Pdu")  # noqa: E731
        sites = [n for n in ast.walk(fi.node) if isinstance(n, ast.Call) and is_pdu_ctor(n) and any(isinstance(a, ast.Name) for a in list(n.args) + [k.value for k in n.keywords])]
        if not sites:
            continue
        n_sites += len(sites)
        muts = mutation_after_escape(fi.node, is_pdu_ctor)
        ev.inst("C06-R7", f"{fi.qualname}: {len(sites)} PDU constructions take local objects, {len(muts)} later mutations of such an object", "ok" if not muts else "violation", loc(fi, fi.node))
        for node, name, call in muts:
            out.append(Finding("C06-R7", f"{fi.qualname} | `{name}` mutated after it was handed to {ast.unparse(call.func)}",
                               f"`{norm(node)[:80]}` mutates the object that {ast.unparse(call.func)}(...) constructed at line {call.lineno} still refers to: the already queued PDU's content changes (length fields no longer match)", loc(fi, node)))
    if n_sites == 0:
        raise AnalysisError("no PDU construction taking a local object found in the destination handler (rule blind)")
    ev.extra["explanation"] = "every NAK-construction event of the destination handler's ATS (requests, scope, metadata/tracker state at that moment) and syntax-tree rules on the deferred NAK builder and the EOF handler; the exactness of the requested byte set is NOT decided"
    ev.assume("exactness of the tracker's content is C18; that the requested set equals the missing set over all arrival histories needs an inductive invariant over tracker, offsets and stored bytes and is not decided")
    return out

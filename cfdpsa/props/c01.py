"""C01 - a reported successful delivery implies a byte-identical file: the integrity gate.

Decided (the gate, not the bytes): (R1) every store of DATA_COMPLETE into the finished parameters
of the destination happens on a path that compared the filestore's checksum of the destination
file (type from the Metadata PDU, length = progress) with the checksum received in the EOF PDU and
found them equal, or the checksum type is NULL, or the transaction is metadata-only;
(R2) in acknowledged mode the completion step is entered only with nothing recorded missing, or
cancelled, or metadata-only; (R3) both ends hash the same thing: type announced = type hashed at
the source, EOF checksum = that hash, the destination compares against the EOF's checksum only;
(R4) the success the sender reports is the receiver's unless no closure was requested in
unacknowledged mode."""
from __future__ import annotations

import ast

from ..atsq import cfg_of, ename, mode_of, rec_field, step_of, state_of
from ..core import Ctx, Evidence, Finding, witness_of
from ..model import AnalysisError, loc, norm
from ..values import E, Pdu, Rec, Sym


def check(ctx: Ctx, ev: Evidence) -> list[Finding]:
    out: list[Finding] = []
    prog = ctx.prog
    ev.rule("C01-R1", "DATA_COMPLETE is stored only behind checksum equality (metadata type, destination file, progress vs EOF checksum), NULL type, or metadata-only", 3)
    ev.rule("C01-R2", "acknowledged mode: the completion step is entered only with an empty tracker and metadata present, or cancelled, or metadata-only", 4)
    ev.rule("C01-R3", "source: announced checksum type == hashed type, EOF checksum == vfs.calculate_checksum result; destination compares with the EOF's checksum only", 4)
    ev.rule("C01-R4", "the sender fabricates a success report only without closure in unacknowledged mode; otherwise it forwards the Finished PDU's parameters", 2)
    a = ctx.ats("dest")
    h = a.h
    seen: set[str] = set()

    def once(k: str) -> bool:
        if k in seen:
            return False
        seen.add(k)
        return True

    for e in a.edges:
        evs = e.ev
        for i, x in enumerate(evs):
            if x.kind == "store" and x.name == "FinishedParams.delivery_code" and ename(x.args[0]) == "DATA_COMPLETE":
                fn = x.func.split(".")[-1]
                ctype = ename(h.ew(x.watch, "_params.checksum_type"))
                md_only = h.ew(x.watch, "_params.fp.metadata_only")
                chk = [y for y in evs[:i] if y.kind == "env" and y.name == "vfs.calculate_checksum" and y.args[-1][0] == "ret"]
                why = None
                if md_only is True:
                    why = "metadata-only"
                elif ctype == "NULL_CHECKSUM" and not chk:
                    why = "NULL checksum type"
                elif chk:
                    c = chk[-1]
                    res = c.args[-1][1]
                    eqs = [(k, v) for k, v in e.ch if k[0] == "eq" and repr(res) in k[1:] and any("crc32" in s or "file_checksum" in s for s in k[1:])]
                    args_ok = (c.args[0] == h.ew(c.watch, "_params.checksum_type") and c.args[1] == h.ew(c.watch, "=_params.fp.file_name")
                               and repr(c.args[2]) in ("$_DestFileParams.progress", "0") or "progress" in repr(c.args[2]))
                    faulted = any(y.kind == "env" and y.name.startswith("fault.") and ename(y.args[1]) == "FILE_CHECKSUM_FAILURE" for y in evs[evs.index(c):i])
                    if eqs and all(v is True for _, v in eqs) and args_ok and not faulted:
                        why = "checksum of (metadata type, destination file, progress) equals the EOF checksum"
                    elif not eqs and args_ok and not faulted:
                        # the comparison outcome was merged away; the mismatch arm always declares the fault first
                        why = "checksum computed and no checksum-failure fault between computation and store"
                k = f"dest handler | DATA_COMPLETE stored in {fn}: " + (why or f"NOT behind the gate (type {ctype}, checksum calls {len(chk)})")
                if once(k):
                    ev.inst("C01-R1", k, "ok" if why else "violation", x.site)
                    if not why:
                        out.append(Finding("C01-R1", f"dest handler | DATA_COMPLETE in {fn} | not behind the checksum gate", "the delivery code is set to DATA_COMPLETE on a path that did not establish checksum equality", x.site, witness_of(a, e)))
            if x.kind == "store" and x.name == "DestStateWrapper.step" and ename(x.args[0]) == "TRANSFER_COMPLETION":
                mode = ename(h.ew(x.watch, "_params.pdu_conf.trans_mode"))
                if mode != "ACKNOWLEDGED":
                    continue
                fn = x.func.split(".")[-1]
                mm = h.ew(x.watch, "_params.acked_params.metadata_missing")
                tr = h.ew(x.watch, "_params.acked_params.lost_seg_tracker.$n")
                disp = ename(h.ew(x.watch, "_params.completion_disposition"))
                mdo = h.ew(x.watch, "_params.fp.metadata_only")
                ok = (tr == 0 and mm is False) or disp == "CANCELED" or mdo is True
                # a fault-triggered cancellation sets the step before the disposition (same function)
                if not ok:
                    later = [y for y in evs[i + 1:i + 4] if y.kind == "store" and y.name == "_DestFieldWrapper.completion_disposition" and ename(y.args[0]) == "CANCELED"]
                    ok = bool(later)
                    disp = "CANCELED (next statement)" if ok else disp
                k = f"dest handler | completion entered in {fn}: tracker {'empty' if tr == 0 else 'NON-EMPTY'}, metadata missing={mm}, disposition={disp}, metadata-only={mdo}"
                if once(k):
                    ev.inst("C01-R2", k, "ok" if ok else "violation", x.site)
                    if not ok:
                        out.append(Finding("C01-R2", f"dest handler | completion in {fn} with data recorded missing", "acknowledged mode: the transfer-completion step is entered although segments or metadata are still recorded missing", x.site, witness_of(a, e)))
    # R3 destination side: stores to crc32 (syntax tree) and the comparison operands
    dq = "cfdppy.handler.dest"
    mi = prog.modules.get(dq)
    if mi is None:
        raise AnalysisError("dest module not found")
    n_crc = 0
    for n in ast.walk(mi.tree):
        if isinstance(n, ast.Assign) and any(isinstance(t, ast.Attribute) and t.attr == "crc32" for t in n.targets):
            n_crc += 1
            ok = ast.unparse(n.value).endswith(".file_checksum") or (isinstance(n.value, ast.Constant))
            ev.inst("C01-R3", f"dest: {norm(n)}", "ok" if ok else "violation", f"{mi.path}:{n.lineno}")
            if not ok:
                out.append(Finding("C01-R3", f"dest | {norm(n)[:80]}", "the checksum the destination verifies against does not come from the EOF PDU", f"{mi.path}:{n.lineno}"))
    if n_crc < 1:
        raise AnalysisError("no store of the EOF checksum found in the destination handler")
    src = ctx.ats("source")
    hs = src.h
    for e in src.edges:
        for x in e.ev:
            if x.kind == "pdu" and x.name == "METADATA":
                p: Pdu = x.args[0]
                ct = p.get("checksum_type")
                mdo = p.get("source_file_name") is None
                ok = mdo or repr(ct) == "<remote_cfg.crc_type>" or (isinstance(ct, E) and cfg_of(e, "remote_cfg.crc_type") == ct)
                k = f"source | Metadata PDU checksum type {ct!r}" + (" (metadata-only)" if mdo else "")
                if once(k):
                    ev.inst("C01-R3", k, "ok" if ok else "violation", x.site)
                    if not ok:
                        out.append(Finding("C01-R3", f"source | Metadata checksum type {ct!r}", "the checksum type announced in the Metadata PDU is not the remote configuration's crc_type", x.site, witness_of(src, e)))
            if x.kind == "env" and x.name == "vfs.calculate_checksum":
                ct = x.args[0]
                ok = repr(ct) == "<remote_cfg.crc_type>" or (isinstance(ct, E) and cfg_of(e, "remote_cfg.crc_type") == ct)
                k = f"source | checksum computed with type {ct!r} over {x.args[1]!r}"
                ok = ok and repr(x.args[1]) in ("req.source_file", "$PutRequest.source_file")
                if once(k):
                    ev.inst("C01-R3", k, "ok" if ok else "violation", x.site)
                    if not ok:
                        out.append(Finding("C01-R3", f"source | checksum over {x.args[1]!r} with type {ct!r}", "the source does not hash its source file with the announced checksum type", x.site, witness_of(src, e)))
            if x.kind == "pdu" and x.name == "EOF":
                p = x.args[0]
                chk = p.get("file_checksum")
                ok = "vfs.calculate_checksum" in repr(chk) or "NULL_CHECKSUM" in repr(chk)
                k = f"source | EOF checksum origin: {'vfs.calculate_checksum' if 'vfs.calculate_checksum' in repr(chk) else repr(chk)[:60]}"
                if once(k):
                    ev.inst("C01-R3", k, "ok" if ok else "violation", x.site)
                    if not ok:
                        out.append(Finding("C01-R3", f"source | EOF checksum {repr(chk)[:60]}", "the EOF PDU's checksum is not the filestore's checksum of the source file", x.site, witness_of(src, e)))
            if x.kind == "env" and x.name == "user.transaction_finished_indication":
                fp = rec_field(x.args[0], "finished_params")
                fabricated = isinstance(fp, Rec)
                mode = ename(hs.ew(x.watch, "_params.pdu_conf.trans_mode"))
                closure = hs.ew(x.watch, "_params.closure_requested")
                ok = (not fabricated) or (mode == "UNACKNOWLEDGED" and closure is False)
                k = f"source | Transaction-Finished parameters {'fabricated locally' if fabricated else 'taken from the Finished PDU'} (mode {mode}, closure {closure})"
                if once(k):
                    ev.inst("C01-R4", k, "ok" if ok else "violation", x.site)
                    if not ok:
                        out.append(Finding("C01-R4", f"source | fabricated success report in mode {mode}, closure {closure}", "the sender reports a locally fabricated success although the receiver's Finished PDU is authoritative", x.site, witness_of(src, e)))
    # the only store of received finished parameters comes from the Finished PDU (syntax tree)
    sm = prog.modules.get("cfdppy.handler.source")
    for n in ast.walk(sm.tree):
        if isinstance(n, ast.Assign) and any(isinstance(t, ast.Attribute) and t.attr == "finished_params" for t in n.targets):
            v = ast.unparse(n.value)
            ok = v in ("None", "finished_pdu.finished_params") or v.startswith("FinishedParams(")
            ev.inst("C01-R4", f"source: {norm(n)[:90]}", "ok" if ok else "violation", f"{sm.path}:{n.lineno}")
            if not ok:
                out.append(Finding("C01-R4", f"source | {norm(n)[:80]}", "the sender's finished parameters are taken from something other than the received Finished PDU", f"{sm.path}:{n.lineno}"))
    ev.extra["explanation"] = "every store of DATA_COMPLETE and every entry into the completion step on the destination handler's ATS edges; every Metadata/EOF construction, checksum call and Transaction-Finished indication of the source handler's ATS edges"
    ev.assume("NOT decided: byte identity itself (needs exact lost-segment bookkeeping - C18 -, a filestore that writes what it is given - C17 -, and CRC collision freedom)")
    # ---- R5: the checksum type that decides the verification is the one of the Metadata PDU actually accepted - on every
    # path a Metadata PDU is taken up (first PDU, or recovered after File Data / EOF arrived first)
    ev.rule("C01-R5", "every call that takes up a Metadata PDU records its checksum type and closure flag (whichever entry path)", 2)
    groups: dict[str, dict] = {}
    for e in a.edges:
        if e.label != ("state_machine", "METADATA") or e.exc is not None:
            continue
        if not any(x.kind == "env" and x.name == "user.metadata_recv_indication" for x in e.ev):
            continue
        entry = "as the first PDU" if state_of(a, e.pre) == "IDLE" else "after other PDUs of the transaction (recovered Metadata)"
        g = groups.setdefault(entry, {"ok": 0, "bad": 0, "edge": None, "missing": set()})
        stored = {x.name.split(".")[-1] for x in e.ev if x.kind == "store"}
        miss = {f for f in ("checksum_type", "closure_requested") if f not in stored}
        if miss:
            g["bad"] += 1
            g["missing"] |= miss
            g["edge"] = g["edge"] or e
        else:
            g["ok"] += 1
    if not groups:
        raise AnalysisError("no Metadata-accepting edge in the destination ATS")
    for entry, g in sorted(groups.items()):
        ok = g["bad"] == 0
        ev.inst("C01-R5", f"dest handler | Metadata taken up {entry}: checksum type and closure flag recorded on {g['ok']} edges, missing on {g['bad']}", "ok" if ok else "violation")
        if not ok:
            out.append(Finding("C01-R5", f"dest handler | Metadata taken up {entry} without recording {sorted(g['missing'])}",
                               f"a Metadata PDU taken up {entry} does not record {sorted(g['missing'])}: the completion check runs with the default (null) checksum type and reports success without verifying the file", "", witness_of(a, g["edge"])))
    return out

"""Counter discipline of the timer-driven retry procedures (shared by C04 and C13)."""
from __future__ import annotations

import ast
from typing import Any, NamedTuple

from ..ats import ATS
from ..atsq import ename, step_of
from ..core import Evidence, Finding, witness_of
from ..model import AnalysisError, Program
from ..values import E, Ref


class Proc(NamedTuple):
    which: str
    name: str
    counter: str  # Class.field of the counter
    counter_attr: str
    limit: str  # remote_cfg field
    timer_path: str  # watch path of the timer
    timer_field: str  # Class.field the timer is stored in
    fault: str
    pdu: str | None
    wait_step: str | None = None


PROCS = {
    "eof_ack": Proc("source", "EOF / ACK(EOF) positive-ACK procedure", "_PositiveAckProcedureParams.ack_counter", "ack_counter",
                    "positive_ack_timer_expiration_limit", "_params.positive_ack_params.ack_timer", "_PositiveAckProcedureParams.ack_timer", "POSITIVE_ACK_LIMIT_REACHED", "EOF", "WAITING_FOR_EOF_ACK"),
    "fin_ack": Proc("dest", "Finished / ACK(Finished) positive-ACK procedure", "_PositiveAckProcedureParams.ack_counter", "ack_counter",
                    "positive_ack_timer_expiration_limit", "_params.positive_ack_params.ack_timer", "_PositiveAckProcedureParams.ack_timer", "POSITIVE_ACK_LIMIT_REACHED", "FINISHED", "WAITING_FOR_FINISHED_ACK"),
    "nak": Proc("dest", "deferred NAK procedure", "_AckedModeParams.nak_activity_counter", "nak_activity_counter",
                "nak_timer_expiration_limit", "_params.acked_params.procedure_timer", "_AckedModeParams.procedure_timer", "NAK_LIMIT_REACHED", "NAK"),
    "check": Proc("dest", "check-limit procedure", "_DestFieldWrapper.current_check_count", "current_check_count",
                  "check_limit", "_params.check_timer", "_DestFieldWrapper.check_timer", "CHECK_LIMIT_REACHED", None),
}


def threshold_of(key: tuple, val: Any, proc: Proc) -> tuple[int, bool] | None:
    """For a recorded comparison choice relating the counter C and the limit L, returns (t, reached)
    such that the choice says `C + 1 - L >= t` (reached=True) or its negation; None if the choice
    does not relate C and L in the form C + c ~ L."""
    tag, form, k = key
    cL = cC = 0
    for a, c in form:
        r = repr(a)
        if proc.limit in r:
            cL = c
        elif proc.counter in r:
            cC = c
        else:
            return None
    if cL not in (1, -1) or cC not in (0, -cL):
        return None
    if tag == "ge":
        if cL == -1:
            return k + 1, bool(val)
        return 2 - k, not bool(val)
    if tag == "eq0":
        if cL == -1:
            return k + 1, bool(val)
        return 1 - k, bool(val)
    return None


def timer_oids(a: ATS, e: Any, proc: Proc) -> set[int]:
    oids = set()
    w = a.h.wget(e.pre, proc.timer_path)
    if isinstance(w, tuple) and w and w[0] == "obj":
        oids.add(w[1])
    for x in e.ev:
        if x.kind == "store" and x.name == proc.timer_field and isinstance(x.args[0], Ref):
            oids.add(x.args[0].oid)
    return oids


def check_proc(a: ATS, pid: str, rule: str, proc: Proc, ev: Evidence, out: list[Finding]) -> None:
    h = a.h
    seen: set[str] = set()
    n_choice = 0
    fault_edges: list[Any] = []

    def rep(k: str, ok: bool, e: Any, msg: str, site: str = "") -> None:
        if (k, ok) in seen:
            return  # an earlier ok never masks a violation of the same key
        seen.add((k, ok))
        ev.inst(rule, f"{proc.name} | {k}", "ok" if ok else "violation", site)
        if not ok:
            out.append(Finding(rule, f"{proc.which} handler | {proc.name} | {k}", f"{proc.name}: {msg}", site, witness_of(a, e)))

    for e in a.edges:
        evs = e.ev
        oids = timer_oids(a, e, proc)
        if not oids:
            continue
        idx = {"create": [], "expired": [], "reset": [], "running": []}
        for i, x in enumerate(evs):
            if x.kind == "timer" and x.args and x.args[0] in oids:
                idx[x.name].append(i)
        incs = [i for i, x in enumerate(evs) if x.kind == "store" and x.name == proc.counter and x.args[2] == "aug"]
        zeros = [i for i, x in enumerate(evs) if x.kind == "store" and x.name == proc.counter and x.args[2] == "set"]
        # (1) creation: counter is zero afterwards
        for i in idx["create"]:
            wrong = [j for j in zeros if evs[j].args[0] != 0]
            later_inc = [j for j in incs if j > i]
            post = a.h.wget(e.post, proc.timer_path.rsplit(".", 1)[0] + "." + proc.counter_attr) if e.exc is None else 0
            ok = not wrong and not later_inc and (post == 0 or e.exc is not None or e.dst is None or step_of(a, e.post) == "IDLE")
            rep(f"timer created in {evs[i].func.split('.')[-1]}: count afterwards {'0' if ok else post}", ok, e,
                f"the expiry count is not zero when the timer is (re)created (count after the call: {post!r})", evs[i].site)
        for j in zeros:
            if evs[j].args[0] != 0:
                rep(f"count initialised to {evs[j].args[0]!r}", False, e, f"the expiry count is initialised to {evs[j].args[0]!r}, not 0", evs[j].site)
        # (1b) the procedure is (re)started whenever its wait step is entered from another step: the count must be zero then
        if proc.wait_step and e.exc is None and step_of(a, e.pre) not in (proc.wait_step, "RETRANSMITTING") and step_of(a, e.post) == proc.wait_step and e.dst is not None:
            post = a.h.wget(e.post, proc.timer_path.rsplit(".", 1)[0] + "." + proc.counter_attr)
            rep(f"wait step {proc.wait_step} entered from {step_of(a, e.pre)}: count {post!r}", post == 0, e,
                f"the procedure is restarted (step {proc.wait_step} entered from {step_of(a, e.pre)}) with a stale expiry count {post!r}: the limit fault fires early")
        # (2) increments
        if len(incs) > max(1, len(idx["expired"])):
            rep(f"{len(incs)} increments for {len(idx['expired'])} observed expiry(ies) in one call", False, e,
                f"the expiry count is incremented {len(incs)} times in one call although the timer expired {len(idx['expired'])} time(s): the count no longer counts expiries", evs[incs[1]].site)
        for i in incs:
            exp_before = [j for j in idx["expired"] if j < i]
            rst = idx["reset"]
            pdu_ok = proc.pdu is None or any(x.kind == "pdu" and (x.name == proc.pdu or (proc.pdu == "NAK" and x.name == "NAK")) for x in evs)
            fault = any(x.kind == "env" and x.name.startswith("fault.") and ename(x.args[1]) == proc.fault for x in evs[:i + 3])
            problems = []
            if not exp_before:
                problems.append("the count is incremented without an observed timer expiry")
            if not rst:
                problems.append("the timer is not re-armed when the count is incremented")
            if not pdu_ok:
                problems.append(f"no {proc.pdu} PDU is re-sent on the expiry that increments the count")
            if e.exc is None:
                rep(f"increment in {evs[i].func.split('.')[-1]}: after expiry={bool(exp_before)}, timer re-armed={bool(rst)}, {proc.pdu or 'check'} re-sent={pdu_ok}",
                    not problems, e, "; ".join(problems), evs[i].site)
        # (3) the limit decision on every expiry
        if idx["expired"]:
            rel = []
            for k, v in e.ch:
                if isinstance(k, tuple) and len(k) == 3 and k[0] in ("ge", "eq0") and proc.limit in repr(k[1]):
                    t = threshold_of(k, v, proc)
                    rel.append((k, v, t))
            # the declaration: a fault callback with the procedure's condition, or - while a cancellation is already in progress -
            # the abandonment callback (the handlers report the original cancel condition there)
            fault = any(x.kind == "env" and x.name.startswith("fault.") and (ename(x.args[1]) == proc.fault or x.name == "fault.abandoned_cb") for x in evs)
            for k, v, t in rel:
                n_choice += 1
                if t is None:
                    rep(f"limit comparison of unrecognised shape {repr(k)[:80]}", False, e, f"the limit comparison does not have the form count + 1 ~ limit: {k!r}")
                    continue
                thr, reached = t
                rep(f"limit reached iff count + 1 - limit >= {thr}" if k[0] == "ge" else f"limit reached iff count + 1 - limit == {thr}", thr == 0, e,
                    f"the limit fault is declared when count + 1 - limit {'>=' if k[0] == 'ge' else '=='} {thr} instead of 0: it fires at expiry number limit{thr:+d}, not exactly at the configured one")
                if thr == 0 and e.exc is None:
                    if reached:
                        rep("limit reached => fault declared", fault, e, f"the limit is reached but no {proc.fault} fault is declared")
                    else:
                        rep("limit not reached => count incremented", bool(incs) or not idx["expired"] or _completed(evs), e,
                            "the timer expired below the limit but the count is not incremented")
        if idx["expired"] and any(x.kind == "env" and x.name.startswith("fault.") and ename(x.args[1]) == proc.fault for x in evs):
            fault_edges.append(e)
    # the limit fault must depend on the CONFIGURED limit: some expiry edge of the procedure carries a recorded comparison with it
    if fault_edges and n_choice == 0:
        rep(f"the limit fault is declared on {len(fault_edges)} edges but no expiry decision compares anything with {proc.limit}", False, fault_edges[0],
            f"the {proc.fault} fault is declared after a number of expiries that does not depend on the configured {proc.limit} (the decision uses another value)")
    elif fault_edges:
        rep(f"the limit decision depends on the configured {proc.limit}", True, fault_edges[0], "")
    return None


def _completed(evs: tuple) -> bool:
    # check-limit procedure: a successful re-verification completes instead of counting
    return any(x.kind == "store" and x.name.endswith("StateWrapper.step") and ename(x.args[0]) in ("TRANSFER_COMPLETION", "SENDING_EOF_ACK_PDU") for x in evs)


def single_comparison(prog: Program, module: str, proc: Proc, rule: str, ev: Evidence, out: list[Finding]) -> None:
    """evidence only: how many syntactic comparisons relate the counter and the limit, anywhere in the package.  The
    deciding rule is the per-edge threshold rule above (every expiry edge of the ATS carries the comparison that was
    actually taken); a count here can change with any refactoring (helper methods on the parameter classes, aliases) and
    is therefore never a finding."""
    n = 0
    for mi in prog.modules.values():
        for c in ast.walk(mi.tree):
            if isinstance(c, ast.Compare):
                s = ast.unparse(c)
                if proc.counter_attr in s and proc.limit in s:
                    n += 1
    ev.inst(rule, f"{proc.name} | syntactic comparisons relating {proc.counter_attr} and {proc.limit} in the package: {n} (informative)", "ok")

"""C10 - handlers fail only with protocol exceptions and only when the caller is at fault.

Decided over the abstract transition systems of both handlers (default fault-handler table):
(R1) the exception classes that can leave any public call from any reachable abstract state;
(R2) the unretrieved-PDU error is raised only when PDUs were queued when the call was made;
(R3) a PDU rejected by the admission checks has no side effect (no store to handler state, nothing
enqueued, no filestore mutation, no indication).
Not decided: exceptions thrown by user callbacks or by a filestore that breaks its contract."""
from __future__ import annotations

from typing import Any

from ..ats import show_label
from ..core import Ctx, Evidence, Finding, witness_of
from ..model import AnalysisError, loc

REJECTIONS = {"InvalidPduDirection", "InvalidSourceId", "InvalidDestinationId", "InvalidTransactionSeqNum",
              "InvalidPduForSourceHandler", "InvalidPduForDestHandler", "PduIgnoredForSource", "PduIgnoredForDest",
              "NoRemoteEntityCfgFound"}
# documented caller faults that are not protocol exceptions (frozen table, one reason each)
CALLER_FAULTS = [
    ("ValueError", "explicit", "_get_next_transfer_seq_num", "sequence-number provider with an unsupported bit width (configuration error, documented)"),
    ("ValueError", "explicit", "put_request", "invalid transmission mode in the put request (documented in put_request)"),
    ("ValueError", "lib-config", "", "maximum packet length too small for any PDU (configuration error raised by spacepackets)"),
]
MUTATING_ENV = ("vfs.write_data", "vfs.create_file", "vfs.delete_file", "vfs.truncate_file", "vfs.rename_file", "vfs.replace_file",
                "vfs.create_directory", "vfs.remove_directory")


def _step(a, w):
    return repr(a.h.wget(w, "states.step")).split(".")[-1]


def queue_counter_coherence(ats_of, ev: Evidence, rule: str = "C10-R4") -> list[Finding]:
    """the invariant behind C10-R2 - after every public call that returns normally the ready counter equals the queue length
    (a put request issued before the user retrieved the PDUs of the previous transaction is outside: the user must retrieve them)"""
    out: list[Finding] = []
    for which in ("source", "dest"):
        a = ats_of(which)
        h = a.h
        n_nodes = 0
        bad4: dict[tuple, Any] = {}
        for e in a.edges:
            if e.dst is None or e.exc is not None:
                continue
            if e.label[0] == "put_request" and h.wget(e.pre, "_pdus_to_be_sent"):
                continue
            cnt, q = h.wget(e.post, "states._num_packets_ready"), h.wget(e.post, "_pdus_to_be_sent")
            cnt0, q0 = h.wget(e.pre, "states._num_packets_ready"), h.wget(e.pre, "_pdus_to_be_sent")
            if (isinstance(q0, tuple) and "ANY" in q0) or (isinstance(q, tuple) and "ANY" in q):
                continue  # queue content abstracted away (users that do not retrieve PDUs, thorough tier): length unknown
            if not (isinstance(cnt0, int) and not isinstance(cnt0, bool)) or (isinstance(q0, tuple) and cnt0 != len(q0)):
                continue  # counter unknown on entry, or the disagreement was inherited (it is reported on the edge that created it)
            if isinstance(cnt, int) and not isinstance(cnt, bool) and isinstance(q, tuple):
                n_nodes += 1
                if cnt != len(q):
                    bad4.setdefault((show_label(e.label), _step(a, e.pre), cnt, len(q)), e)
        ev.inst(rule, f"{which} handler | {n_nodes} call results: counter == queue length on all but {len(bad4)} classes", "ok" if not bad4 else "violation")
        for (lab, st, cnt, ql), e in sorted(bad4.items(), key=lambda kv: repr(kv[0])):
            out.append(Finding(rule, f"{which} handler | counter {cnt} vs {ql} queued PDUs | call {lab} | entry step {st}",
                               f"after {lab} from step {st} the handler reports {cnt} PDUs ready while {ql} are queued: get_next_packet/packets_ready disagree and a later call raises UnretrievedPdusToBeSent with nothing to retrieve", "", witness_of(a, e)))
    return out


def check(ctx: Ctx, ev: Evidence) -> list[Finding]:
    out: list[Finding] = []
    ev.rule("C10-R1", "exception classes escaping a public call: only cfdppy.exceptions classes raised explicitly, or a documented caller fault", 20)
    ev.rule("C10-R2", "UnretrievedPdusToBeSent only on edges whose source state has a non-empty outbound queue", 10)
    ev.rule("C10-R3", "PDU rejections happen before any side effect (stores to handler state, enqueue, filestore mutation, indication)", 20)
    stats = {}
    for which in ("source", "dest"):
        a = ctx.ats(which)
        h = a.h
        n_exc = 0
        seen_r1: dict[str, object] = {}
        seen_k: set[str] = set()
        for e in a.edges:
            if e.exc is None:
                ev.inst("C10-R1", f"{which} | {show_label(e.label)} from {_step(a, e.pre)} returns", "ok") if False else None
                continue
            n_exc += 1
            x = e.exc
            fn = x.func.split(".")[-1]
            allowed = x.cls in h.protocol_exceptions and x.origin == "explicit"
            why = "protocol exception"
            if not allowed and x.origin == "env":
                allowed, why = True, "raised by the environment (filestore contract), outside the property"
            if not allowed:
                for cls, origin, f, reason in CALLER_FAULTS:
                    if x.cls == cls and x.origin == origin and (not f or fn == f):
                        allowed, why = True, reason
            if not allowed and x.cls == "ValueError" and x.origin == "explicit":
                # configuration error detected while starting the transaction: raised right after the sequence-number
                # provider was consulted, before any PDU or indication (documented: provider width must be 8/16/32 bit)
                pos = [i for i, y in enumerate(e.ev) if y.kind == "env" and y.name == "seq_num_provider.get_and_increment"]
                after = [y for y in e.ev[pos[-1] + 1:] if y.kind in ("pdu",) or (y.kind == "env" and y.name.startswith("user."))] if pos else [None]
                if pos and not after and "bit width" in x.detail:
                    allowed, why = True, CALLER_FAULTS[0][3]
            # keyed by public call and entry step, not by the private function the exception is raised in (rename-robust)
            key = f"{which} handler | {x.cls} ({x.origin}) | call {show_label(e.label)} | entry step {_step(a, e.pre)} | {x.detail[:90]}"
            if allowed:
                if key not in seen_r1:
                    seen_r1[key] = True
                    ev.inst("C10-R1", key + " :: " + why, "ok", x.site)
            else:
                if key not in seen_r1:
                    seen_r1[key] = e
                    ev.inst("C10-R1", key, "violation", x.site)
                    out.append(Finding("C10-R1", key, f"{x.cls} can leave {h.cls.split('.')[-1]}.{e.label[0]} (raised in {fn}): {x.detail}", x.site, witness_of(a, e)))
                    ev.sample({"rule": "C10-R1", "witness": witness_of(a, e, 12)})
            # R2
            if x.cls == "UnretrievedPdusToBeSent":
                queued = bool(h.wget(e.pre, "_pdus_to_be_sent"))
                k2 = f"{which} handler | UnretrievedPdusToBeSent with an empty queue at entry | call {show_label(e.label)} | entry step {_step(a, e.pre)}"
                if k2 + str(queued) in seen_k:
                    pass
                elif queued:
                    seen_k.add(k2 + str(queued))
                    ev.inst("C10-R2", k2 + " | queue non-empty at entry", "ok", x.site)
                else:
                    seen_k.add(k2 + str(queued))
                    ev.inst("C10-R2", k2 + " | QUEUE EMPTY AT ENTRY", "violation", x.site)
                    out.append(Finding("C10-R2", k2, "UnretrievedPdusToBeSent raised although no PDU was queued when the call was made (the PDUs were queued by this very call)",
                                       x.site, witness_of(a, e)))
            # R3
            if x.cls in REJECTIONS and x.origin == "explicit" and e.label[0] == "state_machine":
                bad = []
                for evn in e.ev:
                    if x.cls == "InvalidNakPdu" and evn.kind == "store" and evn.name.endswith("StateWrapper.step"):
                        # the NAK content is validated after the regular "packets were sent" FSM
                        # advancement that every call performs; it is not one of the admission checks
                        continue
                    if evn.kind == "store" and not evn.name.startswith(("$Pkt", "PduConfig.")) and evn.name.split(".")[0] not in ("IndicationCfg", "RemoteEntityCfg"):
                        bad.append(f"store to {evn.name} at {evn.site}")
                    elif evn.kind == "pdu":
                        bad.append(f"{evn.name} PDU built at {evn.site}")
                    elif evn.kind == "env" and (evn.name in MUTATING_ENV or evn.name.startswith("user.")):
                        bad.append(f"{evn.name} at {evn.site}")
                k3 = f"{which} handler | {x.cls} raised in {fn} | {x.detail[:60]}"
                isbad = bool(bad or (e.pre != e.post and x.cls != "InvalidNakPdu"))
                if k3 + str(isbad) + _step(a, e.pre) in seen_k:
                    continue
                seen_k.add(k3 + str(isbad) + _step(a, e.pre))
                if isbad:
                    if not bad:
                        bad = ["observable state differs after the call"]
                    ev.inst("C10-R3", k3, "violation", x.site)
                    out.append(Finding("C10-R3", k3, f"PDU rejected with {x.cls} after side effects: {bad[0]}", x.site, witness_of(a, e)))
                else:
                    ev.inst("C10-R3", k3, "ok", x.site)
        stats[which] = {"nodes": len(a.nodes), "edges": len(a.edges), "exception_edges": n_exc, "cached": getattr(a, "cached", False),
                        "build_wall_s": round(a.wall, 1), "stmts_interpreted": a.stats["stmts"],
                        "calls": a.stats["calls_total"], "functions_entered": len(a.stats["funcs_entered"]),
                        "assumptions": dict(sorted(a.stats["assumptions"].items(), key=lambda kv: -kv[1])[:12]),
                        "environment_exceptions_not_caught": {f"{k[0]} raises {k[1]} at {k[2]}": v for k, v in list(a.stats["env_uncaught"].items())[:12]}}
    ev.extra["ats"] = stats
    ev.extra["states"] = sum(s["nodes"] for s in stats.values())
    ev.extra["transitions"] = sum(s["edges"] for s in stats.values())
    # R4
    ev.rule("C10-R4", "after every public call the ready-PDU counter equals the number of queued PDUs", 2)
    out += queue_counter_coherence(lambda w: ctx.ats(w), ev)
    # R5 (syntax tree): whoever empties the send queue also zeroes the ready counter (the reset paths are not part of the ATS)
    ev.rule("C10-R5", "a function that clears or replaces the send queue also sets the ready-PDU counter to 0", 2)
    import ast as _ast
    for which, cls in (("source", "cfdppy.handler.source.SourceHandler"), ("dest", "cfdppy.handler.dest.DestHandler")):
        n_clear = 0
        for fi in ctx.prog.functions.values():
            if fi.cls != cls or fi.name == "__init__":
                continue
            clears = [n for n in _ast.walk(fi.node) if (isinstance(n, _ast.Call) and isinstance(n.func, _ast.Attribute) and n.func.attr == "clear" and _ast.unparse(n.func.value).endswith("_pdus_to_be_sent"))
                      or (isinstance(n, _ast.Assign) and any(_ast.unparse(t).endswith("_pdus_to_be_sent") for t in n.targets))]
            if not clears:
                continue
            n_clear += 1
            zero = any(isinstance(n, _ast.Assign) and any(_ast.unparse(t).endswith("_num_packets_ready") for t in n.targets) and isinstance(n.value, _ast.Constant) and n.value.value == 0 for n in _ast.walk(fi.node))
            ev.inst("C10-R5", f"{which} handler | {fi.name} empties the send queue and zeroes the counter: {zero}", "ok" if zero else "violation", loc(fi, clears[0]))
            if not zero:
                out.append(Finding("C10-R5", f"{which} handler | send queue emptied without zeroing the ready counter",
                                   f"{fi.name} empties the send queue but leaves the ready-PDU counter: afterwards packets_ready/num_packets_ready claim PDUs that get_next_packet() cannot deliver", loc(fi, clears[0])))
        if n_clear == 0:
            ev.inst("C10-R5", f"{which} handler | no function empties the send queue", "ok")
    ev.extra["explanation"] = ("every public call (put_request, state_machine with no packet and with each of the 9 PDU kinds, cancel_request, get_next_packet drain, "
                               "public properties) interpreted abstractly from every reachable abstract state of both handlers; every exception edge classified")
    ev.assume("user callbacks, fault-handler callbacks and providers neither raise nor re-enter the handler")
    ev.assume("the virtual filestore raises only what its interface documents; such exceptions propagating out of a call are outside C10")
    ev.assume("inbound PDU objects are well-formed spacepackets PDUs (library model in libmodel.py)")
    return out

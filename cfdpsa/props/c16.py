"""C16 - all file access goes through the user-supplied virtual filestore.

Decided: (R1) no host I/O is reachable from the handlers' public API outside VirtualFilestore
implementations; (R2) the only filestore object the handlers use is `self.user.vfs` and no handler
module names a concrete filestore class; (R3) every method called on it is declared on the abstract
interface.  Not decided: the behavioural corollary (in-memory run == native run)."""
from __future__ import annotations

import ast
from pathlib import Path

from ..astq import CallGraph, TypeEnv, attr_chain, public_api
from ..core import Ctx, Evidence, Finding, VERIF
from ..model import AnalysisError, Program, loc, norm

HANDLER_MODULES = ["cfdppy.handler.source", "cfdppy.handler.dest", "cfdppy.handler.common", "cfdppy.handler.defs", "cfdppy.handler"]
IO_MODULES = ("os", "shutil", "io", "tempfile", "glob", "fnmatch", "subprocess", "mmap", "fcntl")
IO_BUILTINS = {"open", "input"}
PATH_IO = {"exists", "is_file", "is_dir", "stat", "lstat", "read_bytes", "read_text", "write_bytes", "write_text", "unlink",
           "mkdir", "rmdir", "touch", "iterdir", "glob", "rglob", "samefile", "chmod", "expanduser", "absolute", "resolve",
           "is_symlink", "symlink_to", "hardlink_to", "owner", "group", "cwd", "home"}
PATH_IO_AMBIGUOUS = {"open", "rename", "replace"}
DYNAMIC = {"eval", "exec", "__import__", "getattr", "setattr"}


def scan_functions(prog: Program, cg: CallGraph, funcs: list[str], ev: Evidence | None, rule: str) -> list[Finding]:
    out: list[Finding] = []
    for q in sorted(funcs):
        fi = prog.functions.get(q)
        if fi is None:
            continue
        mi = prog.modules[fi.module]
        calls = cg.calls.get(q, [])
        for c in calls:
            n = c.node
            bad = None
            if c.kind == "builtin" and c.name in IO_BUILTINS:
                bad = f"host I/O builtin {c.name}()"
            elif c.kind == "builtin" and c.name in DYNAMIC:
                if c.name in ("getattr", "setattr") and len(n.args) >= 2 and isinstance(n.args[1], ast.Constant):
                    pass
                else:
                    raise AnalysisError(f"dynamic escape hatch {c.name}() in {q} at {loc(fi, n)}: C16 cannot be decided")
            elif c.kind == "lib" and c.target and c.target.split(".")[0] in IO_MODULES + ("importlib",):
                if c.target.startswith("importlib"):
                    raise AnalysisError(f"importlib use in {q} at {loc(fi, n)}")
                bad = f"host I/O call {c.target}()"
            elif c.kind == "lib" and c.recv_type in ("pathlib.Path", "Path") and c.name in PATH_IO | PATH_IO_AMBIGUOUS:
                bad = f"host file-system access Path.{c.name}()"
            elif c.kind == "unresolved" and c.name in PATH_IO:
                bad = f"file-system method .{c.name}() on an unresolved receiver `{ast.unparse(n.func.value) if isinstance(n.func, ast.Attribute) else '?'}`"
            if ev is not None:
                ev.inst(rule, f"{q} | {norm(n)[:80]}", "violation" if bad else "ok", loc(fi, n))
            if bad:
                out.append(Finding(rule, f"{q} | {norm(n)[:120]}", f"{bad} reachable from the handler API, behind the virtual filestore's back", loc(fi, n)))
        for w in ast.walk(fi.node):
            if isinstance(w, ast.With):
                for it in w.items:
                    ce = it.context_expr
                    if isinstance(ce, ast.Call) and isinstance(ce.func, ast.Name) and ce.func.id == "open":
                        pass  # already reported as the open() call above
        _ = mi
    return out


def vfs_subclasses(prog: Program) -> set[str]:
    return {ci.qualname for ci in prog.classes.values() if any(c.name == "VirtualFilestore" for c in prog.mro(ci.qualname))}


def reachable_outside_vfs(prog: Program, cg: CallGraph, roots: list[str]) -> set[str]:
    stop = vfs_subclasses(prog)
    seen: set[str] = set()
    work = list(roots)
    while work:
        q = work.pop()
        if q in seen:
            continue
        fi = prog.functions.get(q)
        if fi is not None and fi.cls in stop:
            continue  # the sanctioned route: behaviour of a filestore implementation is C17's subject
        seen.add(q)
        for t in cg.edges.get(q, ()):
            if t not in seen:
                work.append(t)
    return seen


def _supplied_store_kept(prog: Program, ev: Evidence) -> list[Finding]:
    """C16-R4: `self.user.vfs` is the access path of every filestore call (R2); it denotes the supplied object only if the
    user base class stores its constructor argument unchanged whenever one is supplied. The constructor is evaluated over
    the two-point domain {SUPPLIED, OTHER}: `is None` tests are decided, truth tests of the supplied object are not (an
    object may be falsy: empty container-like stores)."""
    ev.rule("C16-R4", "the user base class stores the supplied filestore object itself whenever one is supplied (identity, not truthiness)", 1)
    out: list[Finding] = []
    cands = []
    for ci in prog.classes.values():
        init = ci.methods.get("__init__")
        if init is None:
            continue
        if any(isinstance(n, ast.Attribute) and n.attr == "vfs" and isinstance(n.ctx, ast.Store) and ast.unparse(n.value) == "self" for n in ast.walk(init.node)):
            cands.append((ci, init))
    if not cands:
        raise AnalysisError("no class stores a `vfs` attribute in its constructor (anchor of the filestore access path vanished)")
    for ci, init in cands:
        params = [a.arg for a in init.node.args.args[1:] + init.node.args.kwonlyargs]
        ann = {a.arg: ast.unparse(a.annotation) if a.annotation is not None else "" for a in init.node.args.args[1:] + init.node.args.kwonlyargs}
        par = next((p for p in params if "Filestore" in ann.get(p, "") or p == "vfs"), None)
        if par is None:
            ev.inst("C16-R4", f"{ci.qualname}.__init__ takes no filestore argument", "ok", loc(init, init.node))
            continue

        S, O = "SUPPLIED", "OTHER"

        def ev_expr(e: ast.expr, env: dict[str, set[str]]) -> set[str]:
            if isinstance(e, ast.Name):
                return set(env.get(e.id, {O}))
            if isinstance(e, ast.IfExp):
                t = test(e.test, env)
                r: set[str] = set()
                if t in (True, None):
                    r |= ev_expr(e.body, env)
                if t in (False, None):
                    r |= ev_expr(e.orelse, env)
                return r
            if isinstance(e, ast.BoolOp):
                r = set()
                for i, v in enumerate(e.values):
                    vals = ev_expr(v, env)
                    last = i == len(e.values) - 1
                    if last:
                        r |= vals
                        break
                    # `a or b`: a is the result when truthy; the supplied object's truthiness is unknown -> both
                    if isinstance(e.op, ast.Or):
                        r |= vals  # may be the result
                        if vals == {O} and isinstance(v, ast.Constant) and not v.value:
                            r -= vals
                    else:
                        r |= vals  # `a and b`: a is the result when falsy
                return r
            return {O}

        def test(t: ast.expr, env: dict[str, set[str]]) -> bool | None:
            if isinstance(t, ast.Compare) and len(t.ops) == 1 and isinstance(t.comparators[0], ast.Constant) and t.comparators[0].value is None and isinstance(t.left, ast.Name):
                vals = env.get(t.left.id, {O})
                if vals == {S}:
                    return isinstance(t.ops[0], (ast.IsNot, ast.NotEq))
                return None
            if isinstance(t, ast.UnaryOp) and isinstance(t.op, ast.Not):
                r = test(t.operand, env)
                return None if r is None else not r
            return None  # truthiness of the supplied object and anything else: undecided

        def run(body: list[ast.stmt], envs: list[dict[str, set[str]]]) -> list[dict[str, set[str]]]:
            for st in body:
                nxt: list[dict[str, set[str]]] = []
                for env in envs:
                    if isinstance(st, ast.If):
                        t = test(st.test, env)
                        if t in (True, None):
                            nxt += run(st.body, [dict(env)])
                        if t in (False, None):
                            nxt += run(st.orelse, [dict(env)])
                    elif isinstance(st, (ast.Assign, ast.AnnAssign)) and getattr(st, "value", None) is not None:
                        tgts = st.targets if isinstance(st, ast.Assign) else [st.target]
                        v = ev_expr(st.value, env)
                        for tg in tgts:
                            if isinstance(tg, ast.Name):
                                env[tg.id] = v
                            elif isinstance(tg, ast.Attribute) and ast.unparse(tg) == "self.vfs":
                                env["$self.vfs"] = v
                        nxt.append(env)
                    else:
                        nxt.append(env)
                envs = nxt
            return envs

        finals = run(init.node.body, [{par: {S}}])
        stored: set[str] = set()
        for env in finals:
            stored |= env.get("$self.vfs", {O})
        ok = stored == {S}
        ev.inst("C16-R4", f"{ci.qualname}.__init__: self.vfs is the supplied `{par}` on every path where one is supplied", "ok" if ok else "violation", loc(init, init.node))
        if not ok:
            out.append(Finding("C16-R4", f"{ci.qualname}.__init__ | self.vfs may differ from the supplied {par}",
                               f"with a filestore supplied, the constructor can store a different object in self.vfs (decision taken on the truthiness of `{par}` or through another expression): the handlers then work on a store the user did not supply", loc(init, init.node)))
    return out


def check(ctx: Ctx, ev: Evidence) -> list[Finding]:
    prog = ctx.prog
    tenv = TypeEnv(prog)
    cg = CallGraph(prog, tenv)
    findings: list[Finding] = []
    ev.rule("C16-R1", "no host I/O (open, os.*, shutil.*, Path I/O methods, ...) in any function reachable from the handlers' public API outside VirtualFilestore implementations", 150)
    ev.rule("C16-R1b", "handler modules import no host-I/O module", 4)
    ev.rule("C16-R2", "every filestore call's receiver is the access path self.user.vfs; no handler module names a concrete filestore class", 8)
    ev.rule("C16-R3", "every method called on the filestore is declared on the abstract VirtualFilestore interface", 8)
    ev.rule("C16-FIX", "positive fixture: the R1 scanner flags each marked line of /verif/fixtures/c16", 4)
    roots: list[str] = []
    for cls in ("cfdppy.handler.source.SourceHandler", "cfdppy.handler.dest.DestHandler"):
        roots += public_api(prog, cls)
    for f in ("cfdppy.handler.dest.acknowledge_inactive_eof_pdu", "cfdppy.handler.common.get_packet_destination"):
        if f not in prog.functions:
            raise AnalysisError(f"anchor {f} vanished")
        roots.append(f)
    reach = reachable_outside_vfs(prog, cg, roots)
    # every method of the handler classes and every function of the handler modules is in scope as
    # well (a private helper not yet wired to the API still must not do host I/O)
    for fi in prog.functions.values():
        if fi.module in HANDLER_MODULES:
            reach.add(fi.qualname + (".setter" if fi.is_setter else ""))
    findings += scan_functions(prog, cg, sorted(reach), ev, "C16-R1")
    # R1b imports
    for m in HANDLER_MODULES:
        mi = prog.modules.get(m)
        if mi is None:
            continue
        bad = sorted({q.split(".")[0] for q in mi.imports.values() if q.split(".")[0] in IO_MODULES})
        ev.inst("C16-R1b", m, "violation" if bad else "ok", str(mi.path))
        for b in bad:
            findings.append(Finding("C16-R1b", f"{m} | import {b}", f"handler module imports host-I/O module {b}", str(mi.path)))
    # R2/R3
    vfs_ci = prog.class_by_simple("VirtualFilestore")
    if vfs_ci is None:
        raise AnalysisError("VirtualFilestore interface not found")
    iface = {m for m in vfs_ci.methods}
    concrete = {ci.name for ci in prog.classes.values() if ci.qualname in vfs_subclasses(prog) and ci.name != "VirtualFilestore"}
    concrete |= {k for mi in prog.modules.values() for k, v in mi.imports.items() if v.split(".")[-1] in concrete}
    for m in HANDLER_MODULES:
        mi = prog.modules.get(m)
        if mi is None:
            continue
        for n in ast.walk(mi.tree):
            if isinstance(n, ast.Name) and n.id in concrete:
                findings.append(Finding("C16-R2", f"{m} | names {n.id}", f"handler module names the concrete filestore class {n.id}", f"{mi.path}:{n.lineno}"))
    n_vfs = 0
    for q, calls in cg.calls.items():
        fi = prog.functions.get(q)
        if fi is None or fi.module not in HANDLER_MODULES:
            continue
        for c in calls:
            if c.recv_type == vfs_ci.qualname or (isinstance(c.node.func, ast.Attribute) and (attr_chain(c.node.func.value) or "").endswith(".vfs")):
                n_vfs += 1
                chain = attr_chain(c.node.func.value) if isinstance(c.node.func, ast.Attribute) else None
                ok2 = chain == "self.user.vfs"
                ev.inst("C16-R2", f"{q} | {norm(c.node)[:80]}", "ok" if ok2 else "violation", loc(fi, c.node))
                if not ok2:
                    findings.append(Finding("C16-R2", f"{q} | {norm(c.node)[:120]}", f"filestore call through `{chain}` instead of self.user.vfs", loc(fi, c.node)))
                ok3 = c.name in iface
                ev.inst("C16-R3", f"{q} | vfs.{c.name}", "ok" if ok3 else "violation", loc(fi, c.node))
                if not ok3:
                    findings.append(Finding("C16-R3", f"{q} | vfs.{c.name}", f"method {c.name} is not part of the VirtualFilestore interface", loc(fi, c.node)))
    findings += _supplied_store_kept(prog, ev)
    # fixture
    fx = Program(root=VERIF / "fixtures" / "c16", pkg="fixpkg")
    fcg = CallGraph(fx)
    ff = scan_functions(fx, fcg, sorted(fx.functions), None, "C16-FIX")
    src = (VERIF / "fixtures" / "c16" / "fixpkg" / "__init__.py").read_text().splitlines()
    expected = {i + 1 for i, l in enumerate(src) if "VIOLATION-EXPECTED" in l}
    got = {int(f.where.rsplit(":", 1)[1]) for f in ff}
    for ln in sorted(expected):
        ev.inst("C16-FIX", f"fixture line {ln}", "ok" if ln in got else "violation")
    if not expected or expected - got:
        raise AnalysisError(f"C16 fixture: scanner missed marked lines {sorted(expected - got)}")
    ev.extra["explanation"] = (
        f"call graph over {len(prog.functions)} functions ({cg.resolved}/{cg.total} call sites resolved); {len(reach)} functions in scope "
        f"(reachable from the public API of both handlers or defined in the handler modules), every call site checked against the host-I/O table; "
        f"{n_vfs} filestore call sites checked for receiver and interface membership; positive fixture flagged {len(got)}/{len(expected)} lines")
    ev.extra["functions_in_scope"] = len(reach)
    ev.extra["call_resolution"] = f"{cg.resolved}/{cg.total}"
    ev.assume("user callbacks, the fault-handler callbacks and the timer/sequence providers are user code and outside the property")
    ev.assume("spacepackets and crcmod perform no file I/O on behalf of the handlers (trusted base)")
    return findings

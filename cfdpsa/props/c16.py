"""C16 - all file access goes through the user-supplied virtual filestore.

Decided: (R1) no host I/O is reachable from the handlers' public API outside VirtualFilestore
implementations; (R2) the only filestore object the handlers use is `self.user.vfs` and no handler
module names a concrete filestore class; (R3) every method called on it is declared on the abstract
interface.  Not decided: the behavioural corollary (in-memory run == native run)."""
from __future__ import annotations

import ast
from pathlib import Path

from ..astq import CallGraph, TypeEnv, attr_chain, public_api
from ..core import Ctx, Evidence, Finding, VERIF
from ..model import AnalysisError, Program, loc, norm

HANDLER_MODULES = ["cfdppy.handler.source", "cfdppy.handler.dest", "cfdppy.handler.common", "cfdppy.handler.defs", "cfdppy.handler"]
IO_MODULES = ("os", "shutil", "io", "tempfile", "glob", "fnmatch", "subprocess", "mmap", "fcntl")
IO_BUILTINS = {"open", "input"}
PATH_IO = {"exists", "is_file", "is_dir", "stat", "lstat", "read_bytes", "read_text", "write_bytes", "write_text", "unlink",
           "mkdir", "rmdir", "touch", "iterdir", "glob", "rglob", "samefile", "chmod", "expanduser", "absolute", "resolve",
           "is_symlink", "symlink_to", "hardlink_to", "owner", "group", "cwd", "home"}
PATH_IO_AMBIGUOUS = {"open", "rename", "replace"}
DYNAMIC = {"eval", "exec", "__import__", "getattr", "setattr"}


def scan_functions(prog: Program, cg: CallGraph, funcs: list[str], ev: Evidence | None, rule: str) -> list[Finding]:
    out: list[Finding] = []
    for q in sorted(funcs):
        fi = prog.functions.get(q)
        if fi is None:
            continue
        mi = prog.modules[fi.module]
        calls = cg.calls.get(q, [])
        for c in calls:
            n = c.node
            bad = None
            if c.kind == "builtin" and c.name in IO_BUILTINS:
                bad = f"host I/O builtin {c.name}()"
            elif c.kind == "builtin" and c.name in DYNAMIC:
                if c.name in ("getattr", "setattr") and len(n.args) >= 2 and isinstance(n.args[1], ast.Constant):
                    pass
                else:
                    raise AnalysisError(f"dynamic escape hatch {c.name}() in {q} at {loc(fi, n)}: C16 cannot be decided")
            elif c.kind == "lib" and c.target and c.target.split(".")[0] in IO_MODULES + ("importlib",):
                if c.target.startswith("importlib"):
                    raise AnalysisError(f"importlib use in {q} at {loc(fi, n)}")
                bad = f"host I/O call {c.target}()"
            elif c.kind == "lib" and c.recv_type in ("pathlib.Path", "Path") and c.name in PATH_IO | PATH_IO_AMBIGUOUS:
                bad = f"host file-system access Path.{c.name}()"
            elif c.kind == "unresolved" and c.name in PATH_IO:
                bad = f"file-system method .{c.name}() on an unresolved receiver `{ast.unparse(n.func.value) if isinstance(n.func, ast.Attribute) else '?'}`"
            if ev is not None:
                ev.inst(rule, f"{q} | {norm(n)[:80]}", "violation" if bad else "ok", loc(fi, n))
            if bad:
                out.append(Finding(rule, f"{q} | {norm(n)[:120]}", f"{bad} reachable from the handler API, behind the virtual filestore's back", loc(fi, n)))
        for w in ast.walk(fi.node):
            if isinstance(w, ast.With):
                for it in w.items:
                    ce = it.context_expr
                    if isinstance(ce, ast.Call) and isinstance(ce.func, ast.Name) and ce.func.id == "open":
                        pass  # already reported as the open() call above
        _ = mi
    return out


def vfs_subclasses(prog: Program) -> set[str]:
    return {ci.qualname for ci in prog.classes.values() if any(c.name == "VirtualFilestore" for c in prog.mro(ci.qualname))}


def reachable_outside_vfs(prog: Program, cg: CallGraph, roots: list[str]) -> set[str]:
    stop = vfs_subclasses(prog)
    seen: set[str] = set()
    work = list(roots)
    while work:
        q = work.pop()
        if q in seen:
            continue
        fi = prog.functions.get(q)
        if fi is not None and fi.cls in stop:
            continue  # the sanctioned route: behaviour of a filestore implementation is C17's subject
        seen.add(q)
        for t in cg.edges.get(q, ()):
            if t not in seen:
                work.append(t)
    return seen


def check(ctx: Ctx, ev: Evidence) -> list[Finding]:
    prog = ctx.prog
    tenv = TypeEnv(prog)
    cg = CallGraph(prog, tenv)
    findings: list[Finding] = []
    ev.rule("C16-R1", "no host I/O (open, os.*, shutil.*, Path I/O methods, ...) in any function reachable from the handlers' public API outside VirtualFilestore implementations", 150)
    ev.rule("C16-R1b", "handler modules import no host-I/O module", 4)
    ev.rule("C16-R2", "every filestore call's receiver is the access path self.user.vfs; no handler module names a concrete filestore class", 8)
    ev.rule("C16-R3", "every method called on the filestore is declared on the abstract VirtualFilestore interface", 8)
    ev.rule("C16-FIX", "positive fixture: the R1 scanner flags each marked line of /verif/fixtures/c16", 4)
    roots: list[str] = []
    for cls in ("cfdppy.handler.source.SourceHandler", "cfdppy.handler.dest.DestHandler"):
        roots += public_api(prog, cls)
    for f in ("cfdppy.handler.dest.acknowledge_inactive_eof_pdu", "cfdppy.handler.common.get_packet_destination"):
        if f not in prog.functions:
            raise AnalysisError(f"anchor {f} vanished")
        roots.append(f)
    reach = reachable_outside_vfs(prog, cg, roots)
    # every method of the handler classes and every function of the handler modules is in scope as
    # well (a private helper not yet wired to the API still must not do host I/O)
    for fi in prog.functions.values():
        if fi.module in HANDLER_MODULES:
            reach.add(fi.qualname + (".setter" if fi.is_setter else ""))
    findings += scan_functions(prog, cg, sorted(reach), ev, "C16-R1")
    # R1b imports
    for m in HANDLER_MODULES:
        mi = prog.modules.get(m)
        if mi is None:
            continue
        bad = sorted({q.split(".")[0] for q in mi.imports.values() if q.split(".")[0] in IO_MODULES})
        ev.inst("C16-R1b", m, "violation" if bad else "ok", str(mi.path))
        for b in bad:
            findings.append(Finding("C16-R1b", f"{m} | import {b}", f"handler module imports host-I/O module {b}", str(mi.path)))
    # R2/R3
    vfs_ci = prog.class_by_simple("VirtualFilestore")
    if vfs_ci is None:
        raise AnalysisError("VirtualFilestore interface not found")
    iface = {m for m in vfs_ci.methods}
    concrete = {ci.name for ci in prog.classes.values() if ci.qualname in vfs_subclasses(prog) and ci.name != "VirtualFilestore"}
    concrete |= {k for mi in prog.modules.values() for k, v in mi.imports.items() if v.split(".")[-1] in concrete}
    for m in HANDLER_MODULES:
        mi = prog.modules.get(m)
        if mi is None:
            continue
        for n in ast.walk(mi.tree):
            if isinstance(n, ast.Name) and n.id in concrete:
                findings.append(Finding("C16-R2", f"{m} | names {n.id}", f"handler module names the concrete filestore class {n.id}", f"{mi.path}:{n.lineno}"))
    n_vfs = 0
    for q, calls in cg.calls.items():
        fi = prog.functions.get(q)
        if fi is None or fi.module not in HANDLER_MODULES:
            continue
        for c in calls:
            if c.recv_type == vfs_ci.qualname or (isinstance(c.node.func, ast.Attribute) and (attr_chain(c.node.func.value) or "").endswith(".vfs")):
                n_vfs += 1
                chain = attr_chain(c.node.func.value) if isinstance(c.node.func, ast.Attribute) else None
                ok2 = chain == "self.user.vfs"
                ev.inst("C16-R2", f"{q} | {norm(c.node)[:80]}", "ok" if ok2 else "violation", loc(fi, c.node))
                if not ok2:
                    findings.append(Finding("C16-R2", f"{q} | {norm(c.node)[:120]}", f"filestore call through `{chain}` instead of self.user.vfs", loc(fi, c.node)))
                ok3 = c.name in iface
                ev.inst("C16-R3", f"{q} | vfs.{c.name}", "ok" if ok3 else "violation", loc(fi, c.node))
                if not ok3:
                    findings.append(Finding("C16-R3", f"{q} | vfs.{c.name}", f"method {c.name} is not part of the VirtualFilestore interface", loc(fi, c.node)))
    # fixture
    fx = Program(root=VERIF / "fixtures" / "c16", pkg="fixpkg")
    fcg = CallGraph(fx)
    ff = scan_functions(fx, fcg, sorted(fx.functions), None, "C16-FIX")
    src = (VERIF / "fixtures" / "c16" / "fixpkg" / "__init__.py").read_text().splitlines()
    expected = {i + 1 for i, l in enumerate(src) if "VIOLATION-EXPECTED" in l}
    got = {int(f.where.rsplit(":", 1)[1]) for f in ff}
    for ln in sorted(expected):
        ev.inst("C16-FIX", f"fixture line {ln}", "ok" if ln in got else "violation")
    if not expected or expected - got:
        raise AnalysisError(f"C16 fixture: scanner missed marked lines {sorted(expected - got)}")
    ev.extra["explanation"] = (
        f"call graph over {len(prog.functions)} functions ({cg.resolved}/{cg.total} call sites resolved); {len(reach)} functions in scope "
        f"(reachable from the public API of both handlers or defined in the handler modules), every call site checked against the host-I/O table; "
        f"{n_vfs} filestore call sites checked for receiver and interface membership; positive fixture flagged {len(got)}/{len(expected)} lines")
    ev.extra["functions_in_scope"] = len(reach)
    ev.extra["call_resolution"] = f"{cg.resolved}/{cg.total}"
    ev.assume("user callbacks, the fault-handler callbacks and the timer/sequence providers are user code and outside the property")
    ev.assume("spacepackets and crcmod perform no file I/O on behalf of the handlers (trusted base)")
    return findings

"""C17 - native filestore operations vs a reference model: structural clauses only.

The history-quantified equivalence with a reference file system is NOT decided.  Decided:
(R1) every operation returns only status codes of its own family; (R2) precondition tests come
before any effectful host call, and a path returning a refusal code contains no effect outside a
try whose handler returns the refusal; (R3) open modes: write_data non-truncating and seeks before
writing, truncate_file truncating, create_file exclusive, reads read-only; (R4) read-back: seek to
the offset, read the requested length."""
from __future__ import annotations

import ast

from ..core import Ctx, Evidence, Finding
from ..model import AnalysisError, loc, norm

NF = "cfdppy.filestore.NativeFilestore"
FAMILY = {"create_file": ("CREATE_",), "delete_file": ("DELETE_",), "rename_file": ("RENAME_",), "replace_file": ("REPLACE_",),
          "create_directory": ("CREATE_DIR_",), "remove_directory": ("REMOVE_DIR_",), "list_directory": ("SUCCESS", "NOT_PERFORMED")}
NOT_FAMILY = {"create_file": ("CREATE_DIR_",)}
EFFECTS = {"os.remove", "os.unlink", "os.rmdir", "os.mkdir", "os.makedirs", "os.rename", "os.replace", "shutil.rmtree", "shutil.move", "shutil.copy",
           "os.system", "os.chdir", "os.truncate"}
EFFECT_METHODS = {"rename", "replace", "unlink", "rmdir", "mkdir", "touch", "write_bytes", "write_text"}


def _is_effect(n: ast.AST) -> str | None:
    if isinstance(n, ast.Call):
        f = ast.unparse(n.func)
        if f in EFFECTS:
            return f
        if isinstance(n.func, ast.Attribute) and n.func.attr in EFFECT_METHODS and not f.startswith(("os.", "shutil.", "self.", "_LOGGER")):
            return f
        if f == "open":
            mode = ast.unparse(n.args[1]) if len(n.args) > 1 else "'r'"
            if any(c in mode for c in "wax+"):
                return f"open(..., {mode})"
    return None


def _effects_in(stmts: list[ast.stmt]) -> list[tuple[ast.AST, str]]:
    out = []
    for s in stmts:
        for n in ast.walk(s):
            e = _is_effect(n)
            if e:
                out.append((n, e))
    return out


def _codes(n: ast.AST) -> list[str]:
    return [x.attr for x in ast.walk(n) if isinstance(x, ast.Attribute) and ast.unparse(x.value) in ("FilestoreResponseStatusCode", "FilestoreResult")]


# which already existing paths (parameter position after self) an operation changes or removes on the host; paths that
# must not exist beforehand (create_file, the new name of rename_file) cannot have a memo entry in a coherent memo
MUTATES = {"delete_file": (0,), "rename_file": (0,), "replace_file": (0, 1), "remove_directory": (0,), "truncate_file": (0,), "write_data": (0,)}


def _instance_state(ci, ev: Evidence) -> list[Finding]:
    """C17-R7: the reference model's only state is the tree. Either the native filestore keeps no per-instance state that
    its operations read (today's tree), or every such memo is invalidated for every path an operation changes."""
    ev.rule("C17-R7", "results depend on the host tree only: no instance state is read by an operation, or each memo keyed by path is invalidated by every operation for every path it changes", 1)
    out: list[Finding] = []
    reads: dict[str, list[tuple[str, ast.AST]]] = {}
    for mname, fi in ci.methods.items():
        if mname == "__init__":
            continue
        called = {id(n.func) for n in ast.walk(fi.node) if isinstance(n, ast.Call)}
        for n in ast.walk(fi.node):
            if isinstance(n, ast.Attribute) and isinstance(n.value, ast.Name) and n.value.id == "self" and id(n) not in called and n.attr not in ci.methods:
                reads.setdefault(n.attr, []).append((mname, n))
    if not reads:
        ev.inst("C17-R7", "NativeFilestore operations read no instance attribute (stateless)", "ok", loc(next(iter(ci.methods.values())), ci.node))
        return out
    for attr, uses in sorted(reads.items()):
        for op, idxs in MUTATES.items():
            fi = ci.methods.get(op)
            if fi is None:
                continue
            params = [a.arg for a in fi.node.args.args[1:]]
            for i in idxs:
                if i >= len(params):
                    continue
                par = params[i]
                inval = False
                for n in ast.walk(fi.node):
                    if isinstance(n, ast.Call) and isinstance(n.func, ast.Attribute) and ast.unparse(n.func.value) == f"self.{attr}":
                        if n.func.attr == "clear" or (n.func.attr in ("pop", "discard", "remove", "__delitem__") and n.args and ast.unparse(n.args[0]) == par):
                            inval = True
                    if isinstance(n, ast.Delete) and any(ast.unparse(t) == f"self.{attr}[{par}]" for t in n.targets):
                        inval = True
                    if isinstance(n, ast.Assign) and any(ast.unparse(t) == f"self.{attr}" for t in n.targets):
                        inval = True
                k = f"{op}: memo self.{attr} invalidated for changed path `{par}`"
                ev.inst("C17-R7", k, "ok" if inval else "violation", loc(fi, fi.node))
                if not inval:
                    out.append(Finding("C17-R7", f"{NF}.{op} | self.{attr} stale for {par}",
                                       f"{op} changes `{par}` on the host but leaves the instance state self.{attr} (read by {sorted({m for m, _ in uses})}) untouched for it: later results come from stale state, not from the tree", loc(fi, fi.node)))
    return out


def check(ctx: Ctx, ev: Evidence) -> list[Finding]:
    prog = ctx.prog
    out: list[Finding] = []
    ci = prog.classes.get(NF)
    if ci is None:
        raise AnalysisError("NativeFilestore not found")
    ev.rule("C17-R1", "status codes returned by an operation belong to its own family", 15)
    ev.rule("C17-R2", "no effectful host call before the last precondition test; refusal paths are effect-free (or inside a try whose handler returns the refusal)", 7)
    ev.rule("C17-R5", "a refusal code returned from an exception handler is acceptable only when the guarded host call itself fails atomically for that precondition (exclusive create, rmdir, mkdir); rename/replace overwrite silently and need an explicit precondition test", 2)
    ev.rule("C17-R3", "open modes and seek-before-write/read of the data operations", 6)
    ev.rule("C17-R4", "read_from_opened_file seeks to the offset and reads the length", 2)
    enum_members = set(prog.lib_enums.get("FilestoreResponseStatusCode", []))
    if not enum_members:
        raise AnalysisError("FilestoreResponseStatusCode members not found in spacepackets")
    for name, fam in FAMILY.items():
        fi = ci.methods.get(name)
        if fi is None:
            raise AnalysisError(f"NativeFilestore.{name} not found")
        rets = [n for n in ast.walk(fi.node) if isinstance(n, ast.Return) and n.value is not None]
        for r in rets:
            for c in _codes(r):
                ok = c in enum_members and c.startswith(fam) and not c.startswith(NOT_FAMILY.get(name, ("\0",)))
                ev.inst("C17-R1", f"{name} returns {c}", "ok" if ok else "violation", loc(fi, r))
                if not ok:
                    out.append(Finding("C17-R1", f"{NF}.{name} | returns {c}", f"{name} returns {c}, which is not a {'/'.join(fam)}* status code", loc(fi, r)))
        # R2: top-level structure: [precondition ifs returning refusals]* then effects
        body = [s for s in fi.node.body if not (isinstance(s, ast.Expr) and isinstance(s.value, ast.Constant))]
        last_pre = -1
        first_eff = None
        for i, s in enumerate(body):
            if isinstance(s, ast.If) and s.body and isinstance(s.body[-1], ast.Return) and not any("SUCCESS" in c for c in _codes(s.body[-1])) and not _effects_in(s.body):
                last_pre = i
            if first_eff is None and _effects_in([s]) and not (isinstance(s, ast.If) and i == last_pre):
                first_eff = i
        ok = first_eff is None or first_eff > last_pre
        ev.inst("C17-R2", f"{name}: preconditions end at statement {last_pre + 1}, first effect at {None if first_eff is None else first_eff + 1}", "ok" if ok else "violation", loc(fi, fi.node))
        if not ok:
            out.append(Finding("C17-R2", f"{NF}.{name} | effect before precondition", f"{name} performs {_effects_in([body[first_eff]])[0][1]} before its last precondition test", loc(fi, body[first_eff])))
        # refusal returns with effects on the same straight-line path (outside an except handler)
        for r in rets:
            codes = _codes(r)
            if not codes or any("SUCCESS" in c for c in codes):
                continue
            # find enclosing block chain
            parents = {}
            for p in ast.walk(fi.node):
                for c in ast.iter_child_nodes(p):
                    parents[c] = p
            cur: ast.AST = r
            in_handler = False
            prior: list[ast.stmt] = []
            while cur is not fi.node:
                par = parents[cur]
                if isinstance(par, ast.ExceptHandler):
                    in_handler = True
                for fld in ("body", "orelse"):
                    blk = getattr(par, fld, None)
                    if isinstance(blk, list) and cur in blk:
                        prior = blk[:blk.index(cur)] + prior
                cur = par
            effs = [] if in_handler else [e for s in prior for _, e in _effects_in([s]) if not isinstance(s, (ast.If,)) or True]
            # effects inside earlier if-branches that returned do not lie on this path
            effs = []
            if not in_handler:
                for s in prior:
                    if isinstance(s, ast.If) and s.body and isinstance(s.body[-1], (ast.Return, ast.Raise)) and not s.orelse:
                        continue
                    effs += [e for _, e in _effects_in([s])]
            ok = not effs
            ev.inst("C17-R2", f"{name}: refusal {codes[0]} is effect-free" + (" (except handler)" if in_handler else ""), "ok" if ok else "violation", loc(fi, r))
            if not ok:
                out.append(Finding("C17-R2", f"{NF}.{name} | refusal {codes[0]} after {effs[0]}", f"{name} returns the refusal {codes[0]} after performing {effs[0]}", loc(fi, r)))

    ev.rule("C17-R6", "a *_SUCCESS code is returned only on a path that performed the operation's effect", 6)
    for name in FAMILY:
        fi = ci.methods.get(name)
        if name == "list_directory":
            continue
        parents = {}
        for p_ in ast.walk(fi.node):
            for c_ in ast.iter_child_nodes(p_):
                parents[c_] = p_
        for r in [n for n in ast.walk(fi.node) if isinstance(n, ast.Return) and n.value is not None and any("SUCCESS" in c for c in _codes(n))]:
            prior: list[ast.stmt] = []
            cur: ast.AST = r
            while cur is not fi.node:
                par = parents[cur]
                for fld in ("body", "orelse"):
                    blk = getattr(par, fld, None)
                    if isinstance(blk, list) and cur in blk:
                        prior = blk[:blk.index(cur)] + prior
                cur = par
            effs = [e for s_ in prior for _, e in _effects_in([s_])]
            ev.inst("C17-R6", f"{name}: {_codes(r)[0]} returned after {effs[-1] if effs else 'NO EFFECT'}", "ok" if effs else "violation", loc(fi, r))
            if not effs:
                out.append(Finding("C17-R6", f"{NF}.{name} | {_codes(r)[0]} without effect", f"{name} reports {_codes(r)[0]} on a path that did not perform the operation", loc(fi, r)))
    ATOMIC = {"os.rmdir", "os.mkdir"}
    for name in FAMILY:
        fi = ci.methods.get(name)
        for t in [n for n in ast.walk(fi.node) if isinstance(n, ast.Try)]:
            effs = [e for _, e in _effects_in(t.body)]
            for hnd in t.handlers:
                codes = [c for r in ast.walk(hnd) if isinstance(r, ast.Return) for c in _codes(r)]
                if not codes:
                    continue
                okh = bool(effs) and all(e in ATOMIC or e.startswith("open(") and "'x'" in e.replace('"', "'") for e in effs)
                ev.inst("C17-R5", f"{name}: refusal {codes[0]} returned from an except handler guarding {effs}", "ok" if okh else "violation", loc(fi, hnd))
                if not okh:
                    out.append(Finding("C17-R5", f"{NF}.{name} | refusal {codes[0]} decided by an exception of {effs}",
                                       f"{name} relies on {effs} raising to detect the precondition for {codes[0]}; that call does not fail (it overwrites), so the refusal never happens and the tree is changed", loc(fi, hnd)))

    def opens(fn: ast.FunctionDef) -> list[ast.Call]:
        return [n for n in ast.walk(fn) if isinstance(n, ast.Call) and ast.unparse(n.func) == "open"]

    def mode_of(c: ast.Call) -> str:
        if len(c.args) > 1 and isinstance(c.args[1], ast.Constant):
            return str(c.args[1].value)
        for k in c.keywords:
            if k.arg == "mode" and isinstance(k.value, ast.Constant):
                return str(k.value.value)
        return "r" if len(c.args) < 2 else "?"

    def calls(fn: ast.AST, attr: str) -> list[ast.Call]:
        return sorted([n for n in ast.walk(fn) if isinstance(n, ast.Call) and isinstance(n.func, ast.Attribute) and n.func.attr == attr], key=lambda n: (n.lineno, n.col_offset))

    spec = {"write_data": lambda m: "+" in m and "r" in m and "b" in m and "w" not in m and "a" not in m,
            "truncate_file": lambda m: m.startswith("w") and "+" not in m or m in ("w", "wb"),
            "create_file": lambda m: m.startswith("x"),
            "read_data": lambda m: m in ("rb",)}
    for name, pred in spec.items():
        fi = ci.methods.get(name)
        if fi is None:
            raise AnalysisError(f"NativeFilestore.{name} not found")
        os_ = opens(fi.node)
        ok = len(os_) == 1 and pred(mode_of(os_[0]))
        ev.inst("C17-R3", f"{name} opens with mode {[mode_of(o) for o in os_]}", "ok" if ok else "violation", loc(fi, fi.node))
        if not ok:
            out.append(Finding("C17-R3", f"{NF}.{name} | open mode {[mode_of(o) for o in os_]}", f"{name} opens the file with mode {[mode_of(o) for o in os_]}", loc(fi, fi.node)))
    fi = ci.methods["write_data"]
    sk, wr = calls(fi.node, "seek"), calls(fi.node, "write")
    ok = len(sk) == 1 and len(wr) == 1 and ast.unparse(sk[0].args[0]) == "offset" and ast.unparse(wr[0].args[0]) == "data" and (sk[0].lineno, sk[0].col_offset) < (wr[0].lineno, wr[0].col_offset)
    ev.inst("C17-R3", "write_data: seek(offset) precedes write(data)", "ok" if ok else "violation", loc(fi, fi.node))
    if not ok:
        out.append(Finding("C17-R3", f"{NF}.write_data | seek/write", "write_data does not seek to the offset before writing exactly the data", loc(fi, fi.node)))
    fi = ci.methods["read_data"]
    sk, rd = calls(fi.node, "seek"), calls(fi.node, "read")
    ok = len(sk) == 1 and len(rd) == 1 and ast.unparse(sk[0].args[0]) == "offset" and ast.unparse(rd[0].args[0]) == "read_len" and sk[0].lineno < rd[0].lineno
    ev.inst("C17-R3", "read_data: seek(offset) precedes read(read_len)", "ok" if ok else "violation", loc(fi, fi.node))
    if not ok:
        out.append(Finding("C17-R3", f"{NF}.read_data | seek/read", "read_data does not seek to the offset and read the requested length", loc(fi, fi.node)))
    fi = ci.methods.get("read_from_opened_file")
    if fi is None:
        raise AnalysisError("read_from_opened_file not found")
    sk, rd = calls(fi.node, "seek"), calls(fi.node, "read")
    ok1 = len(sk) == 1 and ast.unparse(sk[0].args[0]) == "offset"
    ok2 = len(rd) == 1 and ast.unparse(rd[0].args[0]) == "read_len" and ok1 and sk[0].lineno <= rd[0].lineno
    ev.inst("C17-R4", "read_from_opened_file: seek(offset)", "ok" if ok1 else "violation", loc(fi, fi.node))
    ev.inst("C17-R4", "read_from_opened_file: read(read_len) after the seek", "ok" if ok2 else "violation", loc(fi, fi.node))
    if not (ok1 and ok2):
        out.append(Finding("C17-R4", f"{NF}.read_from_opened_file", "read_from_opened_file does not seek to the offset and read the requested length", loc(fi, fi.node)))
    out += _instance_state(ci, ev)
    ev.extra["explanation"] = "syntax-tree rules over the 7 status-returning and 4 data operations of NativeFilestore (status-code families, precondition/effect order, open modes, seek/read/write arguments)"
    ev.assume("the equivalence with a reference file-system model over operation histories is NOT decided (runtime property of the host file system)")
    return out

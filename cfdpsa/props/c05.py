"""C05 - destination file equals the write model; nothing else is touched.

Decided over every filestore event of the destination handler's abstract transition system:
(R1) every path-taking filestore call targets the resolved destination name held in the parameter
block at that moment; (R2) every store to that name is built from the Metadata PDU's destination
and source names with pure path operators only, the directory join behind is_directory(<same
path>); (R3) no filestore mutation while Metadata is missing; (R4) write_data receives the File
Data PDU's own data and offset; (R5) Metadata acceptance for a file creates or truncates exactly
once, truncate iff the file exists; (R6) delete_file only for a cancelled transaction with the
disposition flag set and incomplete data.
Not decided: byte content after overlapping writes and zero-filled gaps (write_data's semantics)."""
from __future__ import annotations

from ..atsq import cfg_of, ename, term_atoms
from ..core import Ctx, Evidence, Finding, witness_of
from ..values import E, Sym, app

MUTATORS = ("vfs.write_data", "vfs.create_file", "vfs.truncate_file", "vfs.delete_file", "vfs.rename_file", "vfs.replace_file",
            "vfs.create_directory", "vfs.remove_directory")
PATH_TAKING = {"vfs.is_directory": 0, "vfs.file_exists": 0, "vfs.truncate_file": 0, "vfs.create_file": 0, "vfs.write_data": 0,
               "vfs.calculate_checksum": 1, "vfs.delete_file": 0, "vfs.file_size": 0, "vfs.read_data": 0}


def check(ctx: Ctx, ev: Evidence) -> list[Finding]:
    out: list[Finding] = []
    ev.rule("C05-R1", "every filestore call of the destination handler takes the parameter block's resolved destination name as its path", 7)
    ev.rule("C05-R2", "the destination name is built only from the Metadata PDU's names with pure path operators; the join is behind is_directory(same path)", 2)
    ev.rule("C05-R3", "no filestore mutation while Metadata is missing", 4)
    ev.rule("C05-R4", "write_data(path, data, offset): data and offset are the File Data PDU's, unmodified", 1)
    ev.rule("C05-R5", "Metadata acceptance for a file: exactly one of create/truncate on the resolved name, truncate iff file_exists", 2)
    ev.rule("C05-R6", "delete_file only when the transaction is cancelled, disposition-on-cancellation is set and the data is incomplete", 1)
    ev.rule("C05-R7", "every File Data PDU accepted after the Metadata (receiving, check-limit and missing-data steps) reaches write_data", 3)
    a = ctx.ats("dest")
    h = a.h
    seen: set[str] = set()

    def once(k: str) -> bool:
        if k in seen:
            return False
        seen.add(k)
        return True

    for e in a.edges:
        evs = e.ev
        vfs = [(i, x) for i, x in enumerate(evs) if x.kind == "env" and x.name.startswith("vfs.")]
        for i, x in vfs:
            fn = x.func.split(".")[-1]
            outcome = x.args[-1]
            if x.name in PATH_TAKING:
                parg = x.args[PATH_TAKING[x.name]]
                cur = h.ew(x.watch, "=_params.fp.file_name")
                ok = parg == cur
                k = f"{x.name} in {fn}: path {parg!r}"
                if once(k + str(ok)):
                    ev.inst("C05-R1", k, "ok" if ok else "violation", x.site)
                    if not ok:
                        out.append(Finding("C05-R1", f"dest handler | {x.name} in {fn} | path {parg!r}",
                                           f"{x.name} is called on {parg!r} which is not the resolved destination name ({cur!r})", x.site, witness_of(a, e)))
            else:
                if once(f"other {x.name}"):
                    ev.inst("C05-R1", f"{x.name} in {fn} (takes no path)", "ok", x.site)
            if x.name in MUTATORS:
                mm = h.ew(x.watch, "_params.acked_params.metadata_missing")
                k = f"{x.name} in {fn} with metadata missing = {mm}"
                if once(k):
                    ev.inst("C05-R3", k, "ok" if mm is False else "violation", x.site)
                    if mm is not False:
                        out.append(Finding("C05-R3", f"dest handler | {x.name} | before Metadata", f"{x.name} (in {fn}) happens although the Metadata PDU has not been received", x.site, witness_of(a, e)))
            if x.name == "vfs.write_data":
                data, off = x.args[1], x.args[2]
                ok = data == Sym(("a", "pkt.file_data")) and off == Sym(("a", "pkt.offset"))
                k = f"write_data(data={data!r}, offset={off!r})"
                if once(k):
                    ev.inst("C05-R4", k, "ok" if ok else "violation", x.site)
                    if not ok:
                        out.append(Finding("C05-R4", f"dest handler | write_data arguments | data={data!r} offset={off!r}", "write_data does not receive the File Data PDU's own data and offset", x.site, witness_of(a, e)))
            if x.name == "vfs.delete_file":
                disp = ename(h.ew(x.watch, "_params.completion_disposition"))
                flag = cfg_of(e, "remote_cfg.disposition_on_cancellation")
                dc = ename(h.ew(x.watch, "_params.finished_params.delivery_code"))
                ok = disp == "CANCELED" and flag is True and dc == "DATA_INCOMPLETE"
                k = f"delete_file in {fn}: disposition={disp}, disposition_on_cancellation={flag}, delivery={dc}"
                if once(k):
                    ev.inst("C05-R6", k, "ok" if ok else "violation", x.site)
                    if not ok:
                        out.append(Finding("C05-R6", f"dest handler | delete_file | {k.split(': ')[1]}", "the destination file is deleted outside (cancelled, disposition flag set, data incomplete)", x.site, witness_of(a, e)))
        # R7 must-write
        if e.label == ("state_machine", "FD") and e.exc is None:
            from ..atsq import step_of as _step_of
            stp = _step_of(a, e.pre)
            if stp in ("RECEIVING_FILE_DATA", "RECV_FILE_DATA_WITH_CHECK_LIMIT_HANDLING", "WAITING_FOR_MISSING_DATA") and not h.wget(e.pre, "_pdus_to_be_sent"):
                wrote = any(x.name == "vfs.write_data" for _, x in vfs)
                k = f"File Data accepted in step {stp} ({ename(h.wget(e.pre, '_params.pdu_conf.trans_mode'))}): write_data called: {wrote}"
                if once(k):
                    ev.inst("C05-R7", k, "ok" if wrote else "violation")
                    if not wrote:
                        out.append(Finding("C05-R7", f"dest handler | File Data accepted in {stp} but not written", f"a File Data PDU accepted in step {stp} is neither refused nor written to the destination file", "", witness_of(a, e)))
        # R2 stores to the name
        for i, x in enumerate(evs):
            if x.kind == "store" and x.name == "_DestFileParams.file_name":
                v = x.args[0]
                atoms, ops = term_atoms(v)
                fn = x.func.split(".")[-1]
                rep = repr(v)
                rest = rep
                for tok in ("call:", "pkt.dest_file_name", "pkt.source_file_name", "$_DestFileParams.file_name", "Path(", ".joinpath(", "joinpath(", ".name", "(", ")", ",", " "):
                    rest = rest.replace(tok, "")
                pure = rest == ""
                joined = "joinpath" in rep or "source_file_name" in rep
                guard_ok = True
                if joined:
                    prev = [y for y in evs[:i] if y.kind == "env" and y.name == "vfs.is_directory"]
                    guard_ok = bool(prev) and prev[-1].args[-1] == ("ret", True) and repr(prev[-1].args[0]) in rep
                k = f"file_name := {rep} in {fn}" + (" behind is_directory(same path)=True" if joined and guard_ok else "")
                # joined component: the BASE name of the source file (a full source path would leave the destination directory,
                # an absolute one replaces it altogether)
                import re as _re
                base_ok = ("source_file_name" not in rep) or bool(_re.search(r"source_file_name\)*\.name", rep))
                if joined and not base_ok:
                    k = f"file_name := {rep} in {fn}: source name joined without reduction to its base name"
                ok = pure and guard_ok and base_ok and ("pkt.dest_file_name" in rep or rep == "Path()")
                if once(k):
                    ev.inst("C05-R2", k, "ok" if ok else "violation", x.site)
                    if not ok:
                        out.append(Finding("C05-R2", f"dest handler | file_name := {rep[:80]} in {fn}", "the destination name is not built from the Metadata PDU's names with pure path operators behind the directory test", x.site, witness_of(a, e)))
        # R5
        r5_edge(a, e, evs, vfs, ev, out, once, "C05-R5")
    ev.extra["explanation"] = "every filestore event and every store to the destination name on every edge of the destination handler's abstract transition system"
    ev.assume("byte content after overlapping/duplicate writes and zero-filled gaps is write_data's semantics (C17), not decided here")
    return out


def r5_edge(a, e, evs, vfs, ev, out, once, rule: str) -> None:
    md_file = [x for x in evs if x.kind == "store" and x.name == "DestStateWrapper.step" and ename(x.args[0]) == "RECEIVING_FILE_DATA" and e.label == ("state_machine", "METADATA")]
    if not md_file:
        return
    cr = [x for _, x in vfs if x.name == "vfs.create_file" and x.args[-1][0] == "ret"]
    tr = [x for _, x in vfs if x.name == "vfs.truncate_file" and x.args[-1][0] == "ret"]
    fe = [x for _, x in vfs if x.name == "vfs.file_exists"]
    rejected = any(x.kind == "caught" and x.name == "PermissionError" for x in evs) or any(x.kind == "env" and x.name.startswith("vfs.") and x.args[-1][0] == "raises" for x in evs)
    exists = fe[-1].args[-1] if fe else None
    ok = rejected or (len(cr) + len(tr) == 1 and ((exists == ("ret", True) and len(tr) == 1) or (exists == ("ret", False) and len(cr) == 1)))
    if e.exc is not None and e.exc.origin == "env":
        ok = True
    k = f"Metadata for a file: file_exists={exists}, create x{len(cr)}, truncate x{len(tr)}" + (" (filestore rejection path)" if rejected else "")
    if once(k):
        ev.inst(rule, k, "ok" if ok else "violation")
        if not ok:
            out.append(Finding(rule, f"dest handler | Metadata acceptance | {k}", "the destination file is not created or truncated exactly once when the Metadata arrives (truncate iff it exists)",
                               md_file[0].site, witness_of(a, e)))


def _calls_in(rep: str) -> list[str]:
    import re
    return [m for m in re.findall(r"([A-Za-z_][A-Za-z_0-9]*)\(", rep)]

"""C14 - declared faults take the effect configured in the fault-handler table.

(R1) every condition a handler declares is a key of the default table parsed from mib.py, and
set_handler refuses other keys before any update.  (R2) decision table of report_fault: handler
code -> callback kind, arguments passed through.  (R3) effect per (declaration site x code) on the
ATS edges: ignore leaves state/step as they were at the declaration; cancel records the declared
condition; abandon ends idle and nothing refers to the replaced parameter block afterwards; no
indication ever carries a null transaction id.  (R4) one callback per declared fault and call.
Quick tier: default table; thorough tier: every handler code for every condition (free table)."""
from __future__ import annotations

import ast

from ..astq import iter_funcs
from ..atsq import Standalone, cfg_of, ename, rec_field, state_of, step_of
from ..core import Ctx, Evidence, Finding, witness_of
from ..interp import Store
from ..model import AnalysisError, loc, norm
from ..values import E, FreeDict, Rec, Ref, Sym

CB_OF = {"NOTICE_OF_CANCELLATION": "notice_of_cancellation_cb", "NOTICE_OF_SUSPENSION": "notice_of_suspension_cb",
         "IGNORE_ERROR": "ignore_cb", "ABANDON_TRANSACTION": "abandoned_cb"}


def check(ctx: Ctx, ev: Evidence) -> list[Finding]:
    prog = ctx.prog
    out: list[Finding] = []
    ev.rule("C14-R1", "every declared condition is a literal key of the default fault-handler table; set_handler refuses keys outside it", 8)
    ev.rule("C14-R2", "report_fault dispatch: handler code -> callback kind, (transaction id, condition, progress) passed through unchanged", 4)
    ev.rule("C14-R3", "effect of a declaration per configured code on every ATS edge (ignore / cancel / abandon); no indication with a null transaction id", 12)
    ev.rule("C14-R4", "at most one fault callback per declared condition and public call", 5)
    # ---- R6: the table object belongs to its instance ("the handler code configured in the LOCAL entity's table decides")
    ev.rule("C14-R6", "every fault-handler table instance owns its dict: the constructor stores a fresh object (literal, dict(...), copy), never a module- or class-level one", 1)
    fh_ci = prog.classes.get("cfdppy.mib.DefaultFaultHandlerBase")
    init = fh_ci.methods.get("__init__") if fh_ci else None
    if init is None:
        raise AnalysisError("DefaultFaultHandlerBase.__init__ not found")
    mi_ = prog.modules[fh_ci.module]
    n_tab = 0
    for n in ast.walk(init.node):
        if isinstance(n, (ast.Assign, ast.AnnAssign)) and getattr(n, "value", None) is not None:
            tg = n.targets if isinstance(n, ast.Assign) else [n.target]
            if not any(isinstance(t, ast.Attribute) and ast.unparse(t.value) == "self" for t in tg):
                continue
            v = n.value
            shared = None
            if isinstance(v, ast.Name) and (v.id in mi_.globals_ or v.id in mi_.imports):
                shared = f"the module-level object `{v.id}`"
            elif isinstance(v, ast.Attribute) and (ast.unparse(v.value) in (fh_ci.name, "type(self)", "self.__class__", "cls")
                                                   or (ast.unparse(v.value) == "self" and (v.attr in fh_ci.class_attrs or v.attr in fh_ci.fields))):
                shared = f"the class-level object `{ast.unparse(v)}`"
            if isinstance(v, (ast.Dict, ast.Name, ast.Attribute, ast.Call)):
                n_tab += 1
                k6 = f"{fh_ci.qualname}.__init__ | {norm(n)[:60]}"
                ev.inst("C14-R6", k6 + (" is a fresh object" if not shared else f" aliases {shared}"), "ok" if not shared else "violation", loc(init, n))
                if shared:
                    out.append(Finding("C14-R6", f"{fh_ci.qualname}.__init__ | table aliases a shared object", f"`{norm(n)[:80]}` binds {shared}: set_handler on one entity's table reconfigures the table of every other entity in the process", loc(init, n)))
    if n_tab == 0:
        raise AnalysisError("no attribute initialisation found in DefaultFaultHandlerBase.__init__")
    try:
        h0 = ctx.harness("dest")
    except AnalysisError as exc_:
        if out:
            # the table cannot be built abstractly BECAUSE it is a shared object: the definite finding above is the answer
            print(f"note: {exc_} - reported together with the violation(s) below")
            return out
        raise
    keys = [k.name for k, _ in h0.default_table.items]
    # ---- R1
    n_sites = 0
    for fi in iter_funcs(prog, ["cfdppy.handler.source", "cfdppy.handler.dest"]):
        for n in ast.walk(fi.node):
            if isinstance(n, ast.Call) and isinstance(n.func, ast.Attribute) and n.func.attr in ("_declare_fault", "report_fault", "_notice_of_cancellation") and n.args:
                arg = n.args[0] if n.func.attr != "report_fault" else (n.args[1] if len(n.args) > 1 else None)
                if arg is None:
                    continue
                s = ast.unparse(arg)
                if s.startswith("ConditionCode."):
                    n_sites += 1
                    ok = s.split(".")[1] in keys
                    ev.inst("C14-R1", f"{fi.qualname} | {norm(n)[:90]}", "ok" if ok else "violation", loc(fi, n))
                    if not ok:
                        out.append(Finding("C14-R1", f"{fi.qualname} | {norm(n)[:90]}", f"declared condition {s} is not a key of the default fault-handler table", loc(fi, n)))
    # semantic companion: every condition that reaches a fault callback on any ATS edge is a key of the table
    declared: dict[str, str] = {}
    for which in ("source", "dest"):
        a0 = ctx.ats(which)
        for e in a0.edges:
            for x in e.ev:
                if x.kind == "env" and x.name.startswith("fault."):
                    declared.setdefault(ename(x.args[1]), x.site)
    for cond, site in sorted(declared.items()):
        ok = cond in keys or cond == "$OTHER"
        ev.inst("C14-R1", f"condition {cond} reaches a fault callback", "ok" if ok else "violation", site)
        if not ok:
            out.append(Finding("C14-R1", f"condition {cond} declared but not in the default table", f"the handlers declare {cond}, which is not a key of the default fault-handler table", site))
    if n_sites + len(declared) < 8:
        raise AnalysisError(f"C14-R1 found only {n_sites} literal declaration sites and {len(declared)} declared conditions")
    sa = Standalone(prog)
    fhq = "cfdppy.mib.DefaultFaultHandlerBase"
    if fhq not in prog.classes:
        raise AnalysisError("DefaultFaultHandlerBase not found")

    def fresh_fh(st: Store, free: bool) -> Ref:
        ex: list = []
        from ..interp import Frame
        res = sa.ip.construct(fhq, [], {}, st, Frame(None, "cfdppy.mib", None), ast.parse("0").body[0], ex)
        ref, st2 = res[0]
        st.heap, st.nid = st2.heap, st2.nid
        st.heap[ref.oid] = {**st.heap[ref.oid], "$role": "fault"}
        if free:
            tab = st.heap[ref.oid]["_handler_dict"]
            st.heap[ref.oid] = {**st.heap[ref.oid], "_handler_dict": FreeDict(tuple(k for k, _ in tab.items), tuple(E("FaultHandlerCode", m) for m in prog.lib_enums["FaultHandlerCode"]), "fh")}
        st.ev = ()
        return ref
    # set_handler on a key outside the table
    outside = [m for m in prog.lib_enums["ConditionCode"] if m not in keys]
    for m in outside[:3]:
        st = Store()
        ref = fresh_fh(st, False)
        res, exs = sa.run(fhq + ".set_handler", [E("ConditionCode", m), E("FaultHandlerCode", "IGNORE_ERROR")], st, ref)
        ok = not res and exs and all(x.cls == "ValueError" for x, _ in exs) and all(not any(e.kind == "store" for e in s.ev) for _, s in exs)
        ev.inst("C14-R1", f"set_handler({m}) refused before any update", "ok" if ok else "violation")
        if not ok:
            out.append(Finding("C14-R1", f"{fhq}.set_handler | {m}", f"set_handler accepts or half-applies the condition {m} which is outside the table", "src/cfdppy/mib.py"))
    # ---- R2
    for code, cb in CB_OF.items():
        st = Store()
        ref = fresh_fh(st, True)
        tid, prog_ = Sym(("a", "arg.transaction_id")), Sym(("a", "arg.progress"))
        cond = E("ConditionCode", keys[0])
        res, exs = sa.run(fhq + ".report_fault", [tid, cond, prog_], st, ref)
        got = set()
        for _, s in res:
            if s.mon.get("o:" + repr(("fh", repr(cond)))) != E("FaultHandlerCode", code):
                continue
            cbs = [(e.name, e.args[:3]) for e in s.ev if e.kind == "env" and e.name.startswith("fault.")]
            got.add(tuple(cbs))
        want = ((f"fault.{cb}", (tid, cond, prog_)),)
        ok = got == {want}
        ev.inst("C14-R2", f"{code} -> {sorted(got)}", "ok" if ok else "violation")
        if not ok:
            out.append(Finding("C14-R2", f"{fhq}.report_fault | {code}", f"report_fault with code {code} invokes {sorted(got)} instead of exactly {cb}(transaction_id, condition, progress)", "src/cfdppy/mib.py"))
    # ---- R3 / R4 on the ATS
    table = "free" if ctx.tier == "thorough" else "default"
    for which in ("source", "dest"):
        a = ctx.ats(which, table)
        h = a.h
        seen: set[str] = set()
        for e in a.edges:
            cbs = [(i, x) for i, x in enumerate(e.ev) if x.kind == "env" and x.name.startswith("fault.")]
            if not cbs and not any(x.kind == "env" and x.name.startswith("user.") for x in e.ev):
                continue
            # null transaction id in an indication
            for x in e.ev:
                if x.kind == "env" and x.name.startswith("user."):
                    tid = x.args[0]
                    tidv = rec_field(tid, "transaction_id", tid)
                    k = f"{which} handler | {x.name} | transaction id {'None' if tidv is None else 'set'}"
                    if k in seen:
                        continue
                    seen.add(k)
                    ev.inst("C14-R3", k, "violation" if tidv is None else "ok", x.site)
                    if tidv is None:
                        out.append(Finding("C14-R3", k, f"{x.name} is issued with transaction_id=None (the parameter block was replaced earlier in the call)", x.site, witness_of(a, e)))
            # "no other callback kind fires for that fault": per declared condition one kind; and nothing is declared any more
            # once the transaction was abandoned in this call (an earlier, ignored fault of the same call is legitimate)
            ab = [j for j, (_i, x) in enumerate(cbs) if x.name == "fault.abandoned_cb"]
            if ab:
                same = {x.name.split(".")[1] for _i, x in cbs if ename(x.args[1]) == ename(cbs[ab[0]][1].args[1])} - {"abandoned_cb"}
                later = sorted({x.name.split(".")[1] + "(" + ename(x.args[1]) + ")" for _i, x in cbs[ab[0] + 1:]})
                if same or later:
                    k = f"{which} handler | abandonment of {ename(cbs[ab[0]][1].args[1])}" + (f" together with {sorted(same)} for the same condition" if same else "") + (f" followed by {later} in the same call" if later else "")
                    if k not in seen:
                        seen.add(k)
                        ev.inst("C14-R3", k, "violation", cbs[ab[0]][1].site)
                        out.append(Finding("C14-R3", k, "a fault whose configured code is ABANDON fires another callback kind as well, or further faults are declared after the transaction was abandoned in the same call", cbs[ab[0]][1].site, witness_of(a, e)))
            for _i, x in cbs:
                tidv = x.args[0]
                k = f"{which} handler | {x.name} transaction id {'None' if tidv is None else 'set'}"
                if k not in seen:
                    seen.add(k)
                    ev.inst("C14-R3", k, "violation" if tidv is None else "ok", x.site)
                    if tidv is None:
                        out.append(Finding("C14-R3", k, f"{x.name} is invoked with transaction_id=None (read after the parameter block was replaced)", x.site, witness_of(a, e)))
            per_cond: dict[str, int] = {}
            for i, x in cbs:
                cond = ename(x.args[1])
                kind = x.name.split(".")[1]
                per_cond[cond] = per_cond.get(cond, 0) + 1
                func = x.func.split(".")[-1]
                after = e.ev[i + 1:]
                if kind == "abandoned_cb":
                    k = f"{which} handler | abandon on {cond}"
                    bad = []
                    if e.exc is not None and e.exc.origin not in ("env",) and not (e.exc.cls in h.protocol_exceptions and e.exc.origin == "explicit"):
                        bad.append(f"{e.exc.cls} after the abandonment: {e.exc.detail[:60]}")
                    if e.exc is None and (state_of(a, e.post) != "IDLE" or step_of(a, e.post) != "IDLE"):
                        bad.append(f"handler ends in {state_of(a, e.post)}/{step_of(a, e.post)} instead of idle")
                    for y in after:
                        if y.kind == "env" and y.name.startswith("user."):
                            bad.append(f"{y.name} after the abandonment")
                        elif y.kind == "pdu":
                            bad.append(f"{y.name} PDU built after the abandonment")
                    kk = k + (" | " + bad[0] if bad else "")
                    if kk in seen:
                        continue
                    seen.add(kk)
                    ev.inst("C14-R3", kk, "violation" if bad else "ok", x.site)
                    if bad:
                        out.append(Finding("C14-R3", kk, f"abandon for {cond}: {bad[0]}", x.site, witness_of(a, e)))
                elif kind == "notice_of_cancellation_cb":
                    if which == "dest":
                        # by the time the callback is reported the notice of cancellation already ran
                        disp = ename(h.ew(x.watch, "_params.completion_disposition"))
                        # "cancelled WITH THAT condition code": the declared condition is what the completion will report
                        stored = [ename(y.args[0]) for y in e.ev[:i] if y.kind == "store" and y.name == "FinishedParams.condition_code"]
                        rec = stored[-1] if stored else "<not stored>"
                        k = f"dest handler | cancel on {cond} | disposition {disp} | condition recorded for the completion: {rec if rec != cond else 'the declared one'}"
                        ok = disp == "CANCELED" and rec == cond
                    else:
                        cc = ename(h.ew(x.watch, "_params.cond_code_eof"))
                        k = f"source handler | cancel on {cond} | EOF condition {cc}"
                        ok = cc in (cond, "None", "$OTHER") or state_of(a, e.post) == "IDLE"
                    if k in seen:
                        continue
                    seen.add(k)
                    ev.inst("C14-R3", k, "ok" if ok else "violation", x.site)
                    if not ok:
                        out.append(Finding("C14-R3", k, f"notice of cancellation for {cond} does not record the declared condition", x.site, witness_of(a, e)))
                elif kind == "ignore_cb":
                    k = f"{which} handler | ignore on {cond}"
                    if k in seen:
                        continue
                    seen.add(k)
                    ev.inst("C14-R3", k, "ok", x.site)
            for cond, n in per_cond.items():
                k = f"{which} handler | {cond} reported {n}x in {show(e)}"
                if k in seen:
                    continue
                seen.add(k)
                ev.inst("C14-R4", k, "ok" if n == 1 else "violation")
                if n > 1:
                    sites = sorted({x.func.split('.')[-1] for _, x in cbs if ename(x.args[1]) == cond})
                    out.append(Finding("C14-R4", f"{which} handler | {cond} | reported more than once per call", f"one {cond} fault invokes the configured callback {n} times in one call", cbs[0][1].site, witness_of(a, e)))
    if table == "default":
        out += probe_all_codes(ctx, ev)
    else:
        # free table: abandonment paths exist on the destination as well - the queue/counter invariant must survive them
        from .c10 import queue_counter_coherence
        ev.rule("C14-R7", "free fault table: after every public call (incl. abandonment) the ready-PDU counter equals the number of queued PDUs", 2)
        out += queue_counter_coherence(lambda w: ctx.ats(w, table), ev, "C14-R7")
    ev.extra["explanation"] = f"fault declaration sites (syntax tree), report_fault/set_handler decision tables (abstract evaluation), and every fault-callback event on the ATS edges of both handlers ({table} fault table)"
    ev.assume("quick tier: the default fault-handler table; thorough tier: every handler code for every condition")
    return out


def show(e) -> str:
    return e.label[0] + (f"({e.label[1]})" if len(e.label) > 1 else "()")


def probe_all_codes(ctx: Ctx, ev: Evidence) -> list[Finding]:
    """quick-tier companion of the free-table ATS: the fault-declaration helper of each handler is interpreted
    directly, for every condition of the table and every handler code, from a sample of reachable busy states;
    the callback must receive the transaction id and progress captured before the dispatch."""
    import ast as _ast
    from ..ats import Harness
    from ..values import FreeDict as _FD, Ref as _Ref
    ev.rule("C14-R5", "fault-declaration helper under every handler code: callback gets the transaction id and progress captured before the dispatch", 8)
    out: list[Finding] = []
    for which in ("source", "dest"):
        a = ctx.ats(which)
        h = Harness(ctx.prog, which, "free")
        cands = [f for f in ctx.prog.functions.values() if f.cls == h.cls and any(isinstance(n, _ast.Attribute) and n.attr == "get_fault_handler" for n in _ast.walk(f.node)) and len(f.params) == 2]
        if len(cands) != 1:
            raise AnalysisError(f"fault-declaration helper of the {which} handler not found ({len(cands)} candidates)")
        fi = cands[0]
        # sample: first busy node per step
        sample: dict[str, int] = {}
        for i in sorted(a.expanded):
            w = a.h.watch(a.nodes[i])
            if state_of(a, w) == "BUSY" and not a.h.wget(w, "_pdus_to_be_sent") and a.h.wget(w, "_params.transaction_id") is not None:
                sample.setdefault(step_of(a, w), i)
        fh_oid = next(o for o, obj in h.node0.heap.items() if obj.get("$role") == "fault")
        seen: set[str] = set()
        for step, ni in sorted(sample.items()):
            for cond in [k for k, _ in h.default_table.items]:
                st = a.nodes[ni].fork()
                st.set_field(fh_oid, "_handler_dict", h.node0.heap[fh_oid]["_handler_dict"])
                tid0 = h.read_term(st, "_params.transaction_id")
                prog0 = h.read_term(st, "_params.fp.progress")
                ex: list = []
                res = h.ip.call_repo(fi, h.self_ref, [cond], {}, st, ex, "<probe>")
                for _v, s2 in list(res) + [(x_, s) for x_, s in ex]:
                    code = s2.mon.get("o:" + repr(("fh", repr(cond))))
                    if _v is not None and getattr(_v, "cls", None) and getattr(_v, "origin", "env") != "env" and not any(x.kind == "env" and x.name.startswith("fault.") for x in s2.ev):
                        # the helper itself fails before the user's fault callback is invoked: the declared fault is lost
                        k = f"{which} handler | code {ename(code)}: {_v.cls} raised before the fault callback"
                        if k not in seen:
                            seen.add(k)
                            ev.inst("C14-R5", k, "violation", _v.site)
                            out.append(Finding("C14-R5", f"{which} handler | {_v.cls} before the callback under code {ename(code)}",
                                               f"with handler code {ename(code)} the fault-declaration helper raises {_v.cls} ({_v.detail}) before the fault callback is invoked", _v.site))
                        continue
                    for x in s2.ev:
                        if x.kind == "env" and x.name.startswith("fault."):
                            ok = x.args[0] == tid0 and x.args[0] is not None and (x.args[2] == prog0 or code is None)
                            k = f"{which} handler | code {ename(code)}: {x.name}(transaction id {'as captured' if x.args[0] == tid0 else repr(x.args[0])}, progress {'as captured' if x.args[2] == prog0 else repr(x.args[2])})"
                            if k in seen:
                                continue
                            seen.add(k)
                            ev.inst("C14-R5", k, "ok" if ok else "violation", x.site)
                            if not ok:
                                out.append(Finding("C14-R5", f"{which} handler | {x.name} under code {ename(code)} | id {x.args[0]!r} progress {x.args[2]!r}",
                                                   f"with handler code {ename(code)} the fault callback receives transaction id {x.args[0]!r} / progress {x.args[2]!r} instead of the values of the faulting transaction", x.site))
    return out

"""C02 - every transfer over a fault-free link completes: necessary conditions visible in the code.

(R1) nominal trace admitted: for the source ({file, metadata-only} x {unacknowledged, unacknowledged
with closure, acknowledged}) and the destination ({file, metadata-only} x the same modes) the
expected skeleton (Metadata, File Data, EOF, [ACK(EOF), Finished, ACK(Finished)], exactly the
successful Transaction-Finished indication, back to idle, no fault callback, no exception) must be
a path of the abstract transition system.  The ATS over-approximates, so a missing path is a
definite break.  (R2) no trap: idle is reachable from every reachable abstract state (the public
reset() excluded).  (R3)/(R4) are C07-R2 and C05-R5 (evaluated there).
Not decided: completion for every size / segment length / id width, pacing independence."""
from __future__ import annotations

from collections import deque

from ..atsq import cfg_of, ename, mode_of, rec_field, state_of, step_of
from ..model import AnalysisError
from ..core import Ctx, Evidence, Finding, witness_of
from ..values import E, Pdu


def _search(a, starts: list[tuple[int, frozenset]], labels: set, bits_of, need: frozenset, edge_ok) -> tuple[bool, int]:
    seen = set(starts)
    q = deque(starts)
    explored = 0
    while q:
        node, bits = q.popleft()
        explored += 1
        for ei in a.out.get(node, ()):
            e = a.edges[ei]
            if e.label not in labels or e.exc is not None or e.dst is None or not edge_ok(e):
                continue
            nb = bits | bits_of(e)
            if state_of(a, e.post) == "IDLE":
                if need <= nb:
                    return True, explored
                continue
            k = (e.dst, nb)
            if k not in seen:
                seen.add(k)
                q.append(k)
    return False, explored


def lost_input(ev: Evidence, src, dst) -> list[Finding]:
    """C02-R6: no awaited PDU is silently lost in the call that enters the step awaiting it.
    Wait steps are derived, not named: a step is a wait step when from every busy, drained node of that step every call
    without a packet that is not driven by a timer expiry stays in the step.  A call state_machine(K) that (a) raises nothing,
    (b) has exactly the effect of the packet-less call from the same node, (c) enters a wait step, while (d) the same K offered
    to the drained node just entered is consumed there (effect different from the packet-less call, not timer driven), has
    dropped a PDU that one call later would have been accepted: in unacknowledged mode nothing re-sends it."""
    ev.rule("C02-R6", "a PDU offered in the call that enters a wait step is handled in that call if that step handles it (no silently lost input)", 2)
    out: list[Finding] = []
    NONE = ("state_machine", None)

    def eff(x):
        return [y for y in x.ev if y.kind == "pdu" or (y.kind == "env" and y.name.startswith(("user.", "vfs.", "fault."))) or (y.kind == "store" and not y.name.startswith("FsmResult"))]

    def sig(e):
        return (e.dst, e.exc.cls if e.exc else None, tuple((x.kind, x.name) for x in eff(e)))

    def timer_driven(e) -> bool:
        return any(isinstance(k, tuple) and k and k[0] == "timer" and v is True for k, v in e.ch)

    for which, a in (("source", src), ("dest", dst)):
        h = a.h
        by: dict[int, dict[tuple, list]] = {}
        for e in a.edges:
            by.setdefault(e.src, {}).setdefault(e.label, []).append(e)
        stepnodes: dict[str, list[int]] = {}
        for n in a.expanded:
            w = h.watch(a.nodes[n])
            if state_of(a, w) == "BUSY" and not h.wget(w, "_pdus_to_be_sent"):
                stepnodes.setdefault(step_of(a, w), []).append(n)
        wait: set[str] = set()
        for S, ns in stepnodes.items():
            ok, cnt = True, 0
            for n in ns:
                for x in by.get(n, {}).get(NONE, []):
                    if x.exc is not None or timer_driven(x):
                        continue
                    cnt += 1
                    if step_of(a, x.post) != S:
                        ok = False
            if ok and cnt:
                wait.add(S)
        if not wait:
            raise AnalysisError(f"no wait step derived for the {which} handler (rule blind)")
        found: dict[tuple, object] = {}
        n_entering = 0
        for n, labs in by.items():
            nsigs = {sig(e) for e in labs.get(NONE, [])}
            for lab, es in labs.items():
                if lab[0] != "state_machine" or lab[1] is None:
                    continue
                for e in es:
                    if e.exc is not None or e.dst is None:
                        continue
                    ps = step_of(a, e.post)
                    if ps == step_of(a, e.pre) or ps not in wait or state_of(a, e.post) != "BUSY":
                        continue
                    n_entering += 1
                    if sig(e) not in nsigs:
                        continue  # the packet had an effect of its own
                    d2 = e.dst
                    dr = by.get(d2, {}).get(("drain",), [])
                    if dr and dr[0].dst is not None:
                        d2 = dr[0].dst
                    dl = by.get(d2, {})
                    dn = {sig(x) for x in dl.get(NONE, [])}
                    if any(x.exc is None and not timer_driven(x) and sig(x) not in dn for x in dl.get(lab, [])):
                        found.setdefault((lab[1], step_of(a, e.pre), ps, mode_of(a, e.pre)), e)
        ev.inst("C02-R6", f"{which} handler | wait steps {sorted(wait)}: {n_entering} packet-carrying calls enter one, {len(found)} classes lose the packet", "ok" if not found else "violation")
        for (k, pre, ps, mode), e in sorted(found.items(), key=lambda kv: kv[0]):
            ev.inst("C02-R6", f"{which} handler | {k} offered in {pre} -> {ps} ({mode}) is dropped", "violation")
            out.append(Finding("C02-R6", f"{which} handler | {k} lost in the call entering {ps} | from {pre} | mode {mode}",
                               f"a {k} PDU passed to the state-machine call that moves from {pre} to {ps} is neither refused nor handled, although {ps} handles that PDU: the PDU is silently lost (in unacknowledged mode nothing re-sends it)", "", witness_of(a, e)))
    return out


def check(ctx: Ctx, ev: Evidence) -> list[Finding]:
    out: list[Finding] = []
    ev.rule("C02-R1", "the nominal trace of every transfer shape x mode is a path of the abstract transition system (definite when missing)", 10)
    ev.rule("C02-R2", "idle is reachable from every reachable abstract state with general inputs (reset excluded)", 10)
    ev.rule("C02-R3", "admission compares entity ids and sequence numbers by value (the source widens ids to a common width, so a width-sensitive comparison refuses returning PDUs)", 3)
    ev.rule("C02-R4", "destination path resolution: exactly one of create/truncate on Metadata acceptance, truncate iff the file exists (shared with C05-R5)", 2)
    src, dst = ctx.ats("source"), ctx.ats("dest")

    def no_fault(e) -> bool:
        return not any(x.kind == "env" and x.name.startswith("fault.") for x in e.ev)

    # ---------------- source
    def sbits(e) -> frozenset:
        b = set()
        for x in e.ev:
            if x.kind == "pdu":
                p: Pdu = x.args[0]
                if x.name == "METADATA":
                    b.add("MD")
                elif x.name == "FD":
                    b.add("FD")
                elif x.name == "EOF" and ename(p.get("condition_code")) == "NO_ERROR":
                    b.add("EOF")
                elif x.name == "EOF":
                    b.add("BAD")
                elif x.name == "ACK_FIN":
                    b.add("ACKFIN")
            elif x.kind == "env" and x.name == "user.transaction_finished_indication":
                b.add("IND")
            elif x.kind == "env" and x.name == "user.transaction_indication":
                b.add("TX")
        return frozenset(b)

    for shape in ("file", "metadata_only"):
        for mode, closure in (("UNACKNOWLEDGED", False), ("UNACKNOWLEDGED", True), ("ACKNOWLEDGED", False), ("ACKNOWLEDGED", True)):
            starts = []
            for ei in src.out.get(0, ()):
                e = src.edges[ei]
                if e.label == ("put_request", shape) and e.exc is None and e.dst is not None and mode_of(src, e.post) == mode and src.h.wget(e.post, "_params.closure_requested") is closure:
                    starts.append((e.dst, frozenset()))
            labels = {("state_machine", None), ("drain",)}
            need = {"TX", "MD", "IND"}
            if shape == "file":
                need |= {"EOF"}
            if mode == "ACKNOWLEDGED":
                labels |= {("state_machine", "ACK_EOF"), ("state_machine", "FINISHED")}
                if shape == "file" or closure:
                    need |= {"ACKFIN"}
            elif closure:
                labels |= {("state_machine", "FINISHED")}
            found, n = _search(src, sorted(set(starts)), labels, sbits, frozenset(need), lambda e: no_fault(e) and "BAD" not in sbits(e)) if starts else (False, 0)
            k = f"source | {shape}, {mode}, closure={closure}: nominal trace {sorted(need)} then idle"
            ev.inst("C02-R1", k + (f" admitted ({n} product states searched)" if found else " NOT ADMITTED"), "ok" if found else "violation")
            if not found:
                out.append(Finding("C02-R1", f"source handler | nominal {shape} transfer, {mode}, closure={closure} | not admitted",
                                   f"no path of the source handler's transition system performs a fault-free {shape} transfer in {mode} mode (closure={closure}) and returns to idle with {sorted(need)}", "src/cfdppy/handler/source.py"))

    # ---------------- destination
    def dbits(e) -> frozenset:
        b = set()
        for x in e.ev:
            if x.kind == "pdu":
                if x.name == "ACK_EOF":
                    b.add("ACKEOF")
                elif x.name == "FINISHED":
                    pf = dict(x.args[0].get("params_fields", ()))
                    b.add("FIN" if ename(pf.get("condition_code")) == "NO_ERROR" and ename(pf.get("delivery_code")) == "DATA_COMPLETE" else "BAD")
                elif x.name == "NAK":
                    b.add("NAK")
            elif x.kind == "env":
                if x.name == "user.metadata_recv_indication":
                    b.add("MDIND")
                elif x.name == "vfs.write_data":
                    b.add("WRITE")
                elif x.name == "user.transaction_finished_indication":
                    fp = rec_field(x.args[0], "finished_params")
                    good = ename(rec_field(fp, "condition_code")) == "NO_ERROR" and ename(rec_field(fp, "delivery_code")) == "DATA_COMPLETE"
                    b.add("IND" if good else "BAD")
        return frozenset(b)

    for shape in ("file", "metadata_only"):
        for mode, closure in (("UNACKNOWLEDGED", False), ("UNACKNOWLEDGED", True), ("ACKNOWLEDGED", False), ("ACKNOWLEDGED", True)):
            starts = []
            for ei in dst.out.get(0, ()):
                e = dst.edges[ei]
                if e.label == ("state_machine", "METADATA") and e.exc is None and e.dst is not None and no_fault(e) and mode_of(dst, e.post) == mode \
                        and dst.h.wget(e.post, "_params.closure_requested") is closure and (dst.h.wget(e.post, "_params.fp.metadata_only") is True) == (shape == "metadata_only"):
                    starts.append((e.dst, dbits(e)))
            labels = {("state_machine", None), ("drain",), ("state_machine", "FD"), ("state_machine", "EOF")}
            need = {"MDIND", "IND"}
            if shape == "file":
                need |= {"WRITE"}
            if mode == "ACKNOWLEDGED":
                labels |= {("state_machine", "ACK_FIN")}
                need |= {"FIN"}
                if shape == "file":
                    need |= {"ACKEOF"}
            elif closure:
                need |= {"FIN"}
            found, n = _search(dst, sorted(set(starts), key=lambda t: (t[0], sorted(t[1]))), labels, dbits, frozenset(need),
                               lambda e: no_fault(e) and "BAD" not in dbits(e) and "NAK" not in dbits(e)) if starts else (False, 0)
            # a metadata-only transaction can complete within the very call that accepts the Metadata
            if not found:
                for ei in dst.out.get(0, ()):
                    e = dst.edges[ei]
                    if e.label == ("state_machine", "METADATA") and e.exc is None and no_fault(e) and state_of(dst, e.post) == "IDLE" and frozenset(need) <= dbits(e):
                        found = True
            k = f"dest | {shape}, {mode}, closure={closure}: nominal trace {sorted(need)} then idle"
            ev.inst("C02-R1", k + (f" admitted ({n} product states searched)" if found else " NOT ADMITTED"), "ok" if found else "violation")
            if not found:
                out.append(Finding("C02-R1", f"dest handler | nominal {shape} reception, {mode}, closure={closure} | not admitted",
                                   f"no path of the destination handler's transition system receives a fault-free {shape} transfer in {mode} mode (closure={closure}) and returns to idle with {sorted(need)}", "src/cfdppy/handler/dest.py"))
    # ---------------- R3: id comparisons by value
    for which, a in (("source", src), ("dest", dst)):
        seen_k: set[str] = set()
        for e in a.edges:
            if e.label[0] != "state_machine" or e.label[1] is None:
                continue
            for k, v in e.ch:
                r = repr(k)
                if not any(t in r for t in ("pkt.source_entity_id", "pkt.dest_entity_id", "pkt.transaction_seq_num")):
                    continue
                if not isinstance(k, tuple) or k[0] not in ("eq0", "eq", "is", "ge"):
                    continue
                which_id = next(t for t in ("pkt.source_entity_id", "pkt.dest_entity_id", "pkt.transaction_seq_num") if t in r)
                by_value = k[0] == "eq0" and f"('a', '{which_id}'), 'value')" in r
                kk = f"{which} handler | admission compares {which_id} {'by .value' if by_value else 'AS OBJECTS (width-sensitive)'}"
                if kk in seen_k:
                    continue
                seen_k.add(kk)
                ev.inst("C02-R3", kk, "ok" if by_value else "violation")
                if not by_value:
                    out.append(Finding("C02-R3", kk, f"the {which} handler compares {which_id} as an object (UnsignedByteField equality includes the byte width): PDUs carrying the widened id are refused and the transfer never completes", f"src/cfdppy/handler/{which}.py"))
    # ---------------- R4 (shared with C05-R5)
    from .c05 import r5_edge
    seen5: set[str] = set()

    def once5(k: str) -> bool:
        if k in seen5:
            return False
        seen5.add(k)
        return True
    for e in dst.edges:
        if e.label == ("state_machine", "METADATA"):
            vfs = [(i, x) for i, x in enumerate(e.ev) if x.kind == "env" and x.name.startswith("vfs.")]
            r5_edge(dst, e, e.ev, vfs, ev, out, once5, "C02-R4")
    # ---------------- R5: end-to-end completion in the product of both transition systems
    from ..product import Product
    ev.rule("C02-R5", "end to end: in the product of both ATSs over a lossless in-order link the transfer can run to successful completion of both sides (definite when unreachable)", 8)
    for shape in ("file", "metadata_only"):
        for mode, closure in (("UNACKNOWLEDGED", False), ("UNACKNOWLEDGED", True), ("ACKNOWLEDGED", False), ("ACKNOWLEDGED", True)):
            P = Product(src, dst, mode, closure, shape)
            starts = P.initial()
            g, _s = P.explore(starts, max_states=1500000) if starts else ({}, set())
            good = P.can_reach_goal(g) if starts else set()
            okp = any(st in good for st in starts)
            ev.inst("C02-R5", f"product | {shape}, {mode}, closure={closure}: completion of both sides reachable: {okp} ({len(g)} product states)", "ok" if okp else "violation")
            if not okp:
                out.append(Finding("C02-R5", f"product | {shape} transfer, {mode}, closure={closure} | completion unreachable",
                                   f"over a lossless in-order link the two handlers can never both complete a {shape} transfer successfully in {mode} mode (closure={closure}): some PDU one side emits is never accepted by the other, or a step is never left", ""))
    # ---------------- R2
    for which, a in (("source", src), ("dest", dst)):
        idle = {i for i in a.expanded if state_of(a, a.h.watch(a.nodes[i])) == "IDLE"}
        okn = a.can_reach(idle, lambda e: e.label[0] != "reset")
        classes: dict[tuple, list[int]] = {}
        for i in sorted(a.expanded):
            w = a.h.watch(a.nodes[i])
            classes.setdefault((step_of(a, w), mode_of(a, w)), []).append(i)
        for (step, mode), nodes in sorted(classes.items()):
            trapped = [i for i in nodes if i not in okn]
            ev.inst("C02-R2", f"{which} handler | step {step}, mode {mode}: {len(nodes)} abstract states, {len(trapped)} cannot reach idle", "violation" if trapped else "ok")
            if trapped:
                out.append(Finding("C02-R2", f"{which} handler | trap | step {step}, mode {mode}", f"from step {step} ({mode}) the handler can never return to idle, whatever PDUs arrive",
                                   "", {"state": a.describe(trapped[0])}))
    out += lost_input(ev, src, dst)
    ev.extra["explanation"] = "product search (ATS node x collected PDU/indication bits) for 16 nominal scenarios; backward reachability of idle over all edges of both abstract transition systems"
    ev.extra["states"] = len(src.nodes) + len(dst.nodes)
    ev.extra["transitions"] = len(src.edges) + len(dst.edges)
    ev.assume("NOT decided: completion for every file size, segment length, id width and pacing (arithmetic over runtime values); only that the shape of the state machines admits the nominal trace")
    return out

"""C09 - file checksums: structural clauses.

CRC arithmetic is crcmod's (trusted).  Decided: (R1) every non-null result of calculate_checksum
depends on the prefix length; (R2) the CRC loop is the tiling idiom from 0 to the prefix length
(consecutive, non-overlapping, complete chunks => independent of the chunk length); (R3) the
type -> algorithm table; (R4) verify_checksum is equality with calculate_checksum on the same
arguments; (R5) every EOF PDU of the source announces the size its checksum was computed over."""
from __future__ import annotations

import ast

from ..astq import guards_of
from ..atsq import Standalone, ename, step_of
from ..core import Ctx, Evidence, Finding, witness_of
from ..interp import Store
from ..model import AnalysisError, FuncInfo, Program, loc, norm
from ..values import E, Pdu, Sym

NF = "cfdppy.filestore.NativeFilestore"


def _tainted_names(fn: ast.FunctionDef, seeds: set[str], prog: Program, fi: FuncInfo) -> set[str]:
    """names whose value (or mutation) may depend on the seeds: data flow through assignments and
    mutating method calls, control flow through enclosing loop/if tests (flow-insensitive fixpoint)"""
    tainted = set(seeds)

    def mentions(e: ast.AST) -> bool:
        for n in ast.walk(e):
            if isinstance(n, ast.Name) and n.id in tainted:
                return True
            if isinstance(n, ast.Call) and isinstance(n.func, ast.Name):
                # repo helper whose result depends on a tainted argument
                pass
        return False

    changed = True
    while changed:
        changed = False

        def visit(stmts: list[ast.stmt], ctrl: bool) -> None:
            nonlocal changed
            for s in stmts:
                if isinstance(s, (ast.Assign, ast.AnnAssign, ast.AugAssign)):
                    val = s.value
                    tg = s.targets if isinstance(s, ast.Assign) else [s.target]
                    if val is not None and (ctrl or mentions(val) or (isinstance(s, ast.AugAssign) and mentions(s.target))):
                        for t in tg:
                            for n in ast.walk(t):
                                if isinstance(n, ast.Name) and n.id not in tainted:
                                    tainted.add(n.id)
                                    changed = True
                elif isinstance(s, ast.Expr) and isinstance(s.value, ast.Call) and isinstance(s.value.func, ast.Attribute):
                    recv = s.value.func.value
                    if isinstance(recv, ast.Name) and (ctrl or any(mentions(a) for a in s.value.args)):
                        if recv.id not in tainted:
                            tainted.add(recv.id)
                            changed = True
                elif isinstance(s, (ast.If, ast.While)):
                    c2 = ctrl or mentions(s.test)
                    visit(s.body, c2)
                    visit(s.orelse, c2)
                elif isinstance(s, ast.For):
                    c2 = ctrl or mentions(s.iter)
                    visit(s.body, c2)
                elif isinstance(s, ast.With):
                    visit(s.body, ctrl)
                elif isinstance(s, ast.Try):
                    visit(s.body, ctrl)
                    for h in s.handlers:
                        visit(h.body, ctrl)

        visit(fn.body, False)
    return tainted


def _data_tainted(fn: ast.FunctionDef, seeds: set[str]) -> set[str]:
    """names whose VALUE may depend on the seeds through assignments only (no control dependence)"""
    t = set(seeds)
    changed = True
    while changed:
        changed = False
        for s in ast.walk(fn):
            val, tgts = None, []
            if isinstance(s, ast.Assign):
                val, tgts = s.value, s.targets
            elif isinstance(s, (ast.AnnAssign, ast.AugAssign)) and s.value is not None:
                val, tgts = s.value, [s.target]
            elif isinstance(s, ast.For):
                val, tgts = s.iter, [s.target]
            elif isinstance(s, ast.NamedExpr):
                val, tgts = s.value, [s.target]
            if val is None:
                continue
            if any(isinstance(n, ast.Name) and n.id in t for n in ast.walk(val)):
                for tg in tgts:
                    for n in ast.walk(tg):
                        if isinstance(n, ast.Name) and n.id not in t:
                            t.add(n.id)
                            changed = True
    return t


def _return_depends(prog: Program, fi: FuncInfo, param: str, depth: int = 0) -> list[tuple[ast.Return, bool, str]]:
    tainted = _tainted_names(fi.node, {param}, prog, fi)
    out = []
    for r in ast.walk(fi.node):
        if not isinstance(r, ast.Return) or r.value is None:
            continue
        dep = False
        how = ""
        for n in ast.walk(r.value):
            if isinstance(n, ast.Name) and n.id in tainted:
                dep, how = True, f"uses {n.id}"
        # call of a repo function with the parameter as argument: the callee must depend on it too
        if isinstance(r.value, ast.Call) and depth < 3:
            f = r.value.func
            callee = None
            if isinstance(f, ast.Name):
                mi = prog.modules[fi.module]
                q = mi.imports.get(f.id) or (mi.functions[f.id].qualname if f.id in mi.functions else None)
                callee = prog.functions.get(q) if q else None
            if callee is not None:
                dep = False
                params = callee.params
                for i, a in enumerate(r.value.args):
                    if any(isinstance(n, ast.Name) and n.id in tainted for n in ast.walk(a)) and i < len(params):
                        sub = _return_depends(prog, callee, params[i], depth + 1)
                        if sub and all(d for _, d, _ in sub):
                            dep, how = True, f"through {callee.name}({params[i]})"
                        else:
                            how = f"{callee.name} ignores its parameter {params[i]}"
        guards = guards_of(fi.node, r)
        if any(any(isinstance(n, ast.Name) and n.id in tainted for n in ast.walk(g)) for g, _ in guards) and not dep:
            dep, how = True, "control-dependent"
        out.append((r, dep, how))
    return out


def check(ctx: Ctx, ev: Evidence) -> list[Finding]:
    prog = ctx.prog
    out: list[Finding] = []
    ev.rule("C09-R1", "each non-null return of calculate_checksum is data/control dependent on size_to_verify (also through repo callees)", 2)
    ev.rule("C09-R2", "the CRC loop is the cursor/end tiling idiom: cursor from 0, chunk = min(segment_len, size - cursor), read at (cursor, chunk), cursor += chunk", 5)
    ev.rule("C09-R3", "type -> algorithm: CRC_32 -> crc32, CRC_32C -> crc32c, NULL -> null constant before any file access, MODULAR -> modular sum, anything else refused", 6)
    ev.rule("C09-R4", "verify_checksum == (calculate_checksum(same arguments) == checksum)", 1)
    ev.rule("C09-R6", "modular checksum: the file is read word by word (4 bytes), or in blocks whose length is explicitly aligned to the 4-byte word grid (otherwise per-block padding makes the result depend on the chunk length)", 1)
    ev.rule("C09-R5", "every EOF PDU announces the size its checksum was computed over", 2)
    fi = prog.functions.get(NF + ".calculate_checksum")
    if fi is None:
        raise AnalysisError("NativeFilestore.calculate_checksum not found")
    # R1
    for r, dep, how in _return_depends(prog, fi, "size_to_verify"):
        txt = norm(r)
        is_null = "NULL_CHECKSUM" in txt
        k = f"{fi.qualname} | {txt[:80]}"
        if is_null:
            g = " ".join(ast.unparse(x) for x, _ in guards_of(fi.node, r))
            ok = "NULL_CHECKSUM" in g
            ev.inst("C09-R1", k + " (null constant, guarded by the null type)", "ok" if ok else "violation", loc(fi, r))
            if not ok:
                out.append(Finding("C09-R1", k, "the null checksum constant is returned for a type other than NULL_CHECKSUM", loc(fi, r)))
            continue
        ev.inst("C09-R1", k + f" ({how})", "ok" if dep else "violation", loc(fi, r))
        if not dep:
            out.append(Finding("C09-R1", k, f"checksum result does not depend on the prefix length size_to_verify ({how or 'no data or control dependence'})", loc(fi, r)))
    # R7: a prefix length of 0 is a legal request (EOF (cancel) before any file data): the parameter is never tested for
    # truthiness, and it is replaced only behind an explicit `is None` test
    ev.rule("C09-R7", "the prefix length is never decided by truthiness (0 is a legal prefix) and is replaced only behind an `is None` test", 1)
    truthy = []
    for n in ast.walk(fi.node):
        tests = []
        if isinstance(n, (ast.If, ast.While, ast.IfExp)):
            tests.append(n.test)
        elif isinstance(n, ast.BoolOp):
            tests += n.values
        elif isinstance(n, ast.UnaryOp) and isinstance(n.op, ast.Not):
            tests.append(n.operand)
        for t in tests:
            if isinstance(t, ast.UnaryOp) and isinstance(t.op, ast.Not):
                t = t.operand
            if isinstance(t, ast.Name) and t.id == "size_to_verify":
                truthy.append(n)
    reass = []
    for n in ast.walk(fi.node):
        if isinstance(n, (ast.Assign, ast.AugAssign, ast.AnnAssign)):
            tg = n.targets if isinstance(n, ast.Assign) else [n.target]
            if any(isinstance(t, ast.Name) and t.id == "size_to_verify" for t in tg):
                g = " ".join(ast.unparse(x) for x, _ in guards_of(fi.node, n))
                if "size_to_verify is None" not in g:
                    reass.append(n)
    okr7 = not truthy and not reass
    ev.inst("C09-R7", f"{fi.qualname}: truthiness tests of the prefix length: {len(truthy)}, replacements not behind `is None`: {len(reass)}", "ok" if okr7 else "violation", loc(fi, fi.node))
    for n in truthy[:1] + reass[:1]:
        out.append(Finding("C09-R7", f"{fi.qualname} | prefix length decided by truthiness / replaced | {norm(n)[:70]}",
                           f"`{norm(n)[:90]}`: an explicit prefix length of 0 (nothing sent yet) is treated like 'not given': the checksum then covers the whole file instead of the empty prefix", loc(fi, n)))
    # R2
    # (a) definite, shape-independent part: what is fed to the CRC must be trimmed to the prefix, i.e. the fed bytes are
    #     data-dependent on size_to_verify (a loop TEST that depends on it stops the loop but does not trim the last block)
    def _feeds_of(f):
        fs = [n for n in ast.walk(f.node) if isinstance(n, ast.Call) and isinstance(n.func, ast.Attribute) and n.func.attr == "update" and n.args]
        return [n for n in fs if any(isinstance(l, (ast.While, ast.For)) and any(x is n for x in ast.walk(l)) for l in ast.walk(f.node))]

    SZ, SEG = "size_to_verify", "segment_len"
    fi_top = fi
    feeds = _feeds_of(fi)
    if not feeds:
        # the loop may have been extracted into a helper of the same class: follow the call that passes the prefix length on
        for c in [n for n in ast.walk(fi.node) if isinstance(n, ast.Call) and isinstance(n.func, ast.Attribute) and ast.unparse(n.func.value) == "self"]:
            callee = prog.functions.get(f"{NF}.{c.func.attr}")
            if callee is None or not _feeds_of(callee):
                continue
            params = callee.params[1:] if callee.params and callee.params[0] == "self" else callee.params
            amap = {ast.unparse(a): params[i] for i, a in enumerate(c.args) if i < len(params)}
            amap.update({ast.unparse(k.value): k.arg for k in c.keywords if k.arg})
            if SZ in amap:
                fi, SZ, SEG = callee, amap[SZ], amap.get(SEG, SEG)
                feeds = _feeds_of(fi)
                break
    dt = _data_tainted(fi.node, {SZ})
    if not feeds:
        raise AnalysisError("calculate_checksum: no CRC update inside a loop, neither directly nor in a helper that receives the prefix length (anchor vanished)")
    for u in feeds:
        dep = any(isinstance(n, ast.Name) and n.id in dt for n in ast.walk(u.args[0]))
        ev.inst("C09-R2", f"bytes fed by `{ast.unparse(u)[:60]}` are trimmed by the prefix length (data dependence on {SZ})", "ok" if dep else "violation", loc(fi, u))
        if not dep:
            out.append(Finding("C09-R2", f"{fi.qualname} | CRC loop | fed block not trimmed to the prefix",
                               f"the bytes passed to `{ast.unparse(u)[:60]}` do not depend on size_to_verify: the last block is read with the chunk length and covers bytes beyond the requested prefix whenever the prefix is not a multiple of the chunk length", loc(fi, u)))
    if any(f.rule == "C09-R2" for f in out):
        loops = []
    else:
        loops = [n for n in ast.walk(fi.node) if isinstance(n, ast.While)]
        if len(loops) != 1:
            raise AnalysisError(f"calculate_checksum: expected exactly one CRC loop, found {len(loops)} (tiling idiom not recognised)")
    w = loops[0] if loops else None
    probs = []
    cur = None
    if w is None:
        pass
    elif isinstance(w.test, ast.Compare) and len(w.test.ops) == 1 and isinstance(w.test.ops[0], ast.Lt) and isinstance(w.test.left, ast.Name) \
            and ast.unparse(w.test.comparators[0]) == SZ:
        cur = w.test.left.id
    else:
        probs.append(f"loop test `{ast.unparse(w.test)}` is not `<cursor> < {SZ}`")
    if w is not None:
        ev.inst("C09-R2", f"loop test {ast.unparse(w.test)}", "ok" if cur else "violation", loc(fi, w))
        if not cur and not probs[:-1]:
            # the fed bytes are trimmed somehow, but not in a shape this rule can verify: fail closed, do not accuse
            raise AnalysisError(f"calculate_checksum: CRC loop shape not recognised ({probs[-1]}); the tiling argument cannot be made")
    if cur:
        init = [s for s in ast.walk(fi.node) if isinstance(s, ast.Assign) and any(isinstance(t, ast.Name) and t.id == cur for t in s.targets) and s.lineno < w.lineno]
        ok = len(init) == 1 and isinstance(init[0].value, ast.Constant) and init[0].value.value == 0
        ev.inst("C09-R2", f"cursor {cur} starts at 0", "ok" if ok else "violation", loc(fi, w))
        if not ok:
            probs.append(f"cursor {cur} is not initialised to 0 exactly once before the loop")
        chunk = None
        for s in w.body:
            if isinstance(s, ast.Assign) and isinstance(s.value, ast.Call) and ast.unparse(s.value.func) == "min" and len(s.value.args) == 2:
                args = {ast.unparse(a) for a in s.value.args}
                if args == {SEG, f"{SZ} - {cur}"}:
                    chunk = s.targets[0].id if isinstance(s.targets[0], ast.Name) else None
        ev.inst("C09-R2", f"chunk = min({SEG}, {SZ} - {cur})", "ok" if chunk else "violation", loc(fi, w))
        if not chunk:
            probs.append(f"no `chunk = min({SEG}, {SZ} - {cur})` in the loop body")
        adv = [s for s in w.body if isinstance(s, ast.AugAssign) and isinstance(s.op, ast.Add) and ast.unparse(s.target) == cur]
        ok = len(adv) == 1 and chunk is not None and ast.unparse(adv[0].value) == chunk
        ev.inst("C09-R2", f"{cur} += {chunk} once per iteration, unconditionally", "ok" if ok else "violation", loc(fi, w))
        if not ok:
            probs.append(f"the cursor is not advanced by exactly the chunk length once per iteration at the top level of the loop body")
        reads = [n for n in ast.walk(w) if isinstance(n, ast.Call) and isinstance(n.func, ast.Attribute) and n.func.attr in ("read_from_opened_file", "read_data")]
        ok = len(reads) == 1 and chunk is not None and [ast.unparse(a) for a in reads[0].args[1:3]] == [cur, chunk]
        upd = [n for n in ast.walk(w) if isinstance(n, ast.Call) and isinstance(n.func, ast.Attribute) and n.func.attr == "update"]
        ok = ok and len(upd) == 1 and reads and any(n is reads[0] for n in ast.walk(upd[0]))
        ev.inst("C09-R2", f"exactly one read at ({cur}, {chunk}) feeding the CRC update", "ok" if ok else "violation", loc(fi, w))
        if not ok:
            probs.append("the chunk read at (cursor, chunk) does not feed exactly one crc update per iteration")
        if reads:
            g = guards_of(fi.node, reads[0])
            extra = [ast.unparse(x) for x, pol in g if x is not w.test and not ast.unparse(x).startswith(("checksum_type", "not file_path", SEG + " =="))]
            extra = [x for x in extra if x != f"{chunk} > 0"]
            if extra:
                probs.append(f"the chunk read is additionally guarded by {extra}")
    for p_ in probs:
        out.append(Finding("C09-R2", f"{fi.qualname} | CRC loop | {p_[:80]}", f"CRC loop is not the tiling idiom: {p_}", loc(fi, w)))
    fi = fi_top
    # R3
    sa = Standalone(prog)
    # the method of the class whose result calculate_checksum feeds and digests (found by use, not by name)
    crc_factory = None
    for a_ in ast.walk(fi.node):
        if isinstance(a_, ast.Assign) and isinstance(a_.value, ast.Call) and isinstance(a_.value.func, ast.Attribute) and ast.unparse(a_.value.func.value) == "self" \
                and len(a_.targets) == 1 and isinstance(a_.targets[0], ast.Name) and [ast.unparse(x) for x in a_.value.args] == ["checksum_type"]:
            cand = prog.functions.get(f"{NF}.{a_.value.func.attr}")
            if cand is not None:
                crc_factory = cand
    if crc_factory is None:
        raise AnalysisError("calculate_checksum: the call that builds the CRC calculator from the checksum type was not found")
    members = prog.lib_enums.get("ChecksumType") or []
    want = {"CRC_32": "crc32", "CRC_32C": "crc32c"}
    for m in members:
        st = Store()
        ref = st.alloc(NF, {})
        res, exs = sa.run(NF + ".checksum_type_to_crcmod_str", [E("ChecksumType", m)], st, ref)
        got = sorted({repr(r) for r, _ in res} | {f"raises {x.cls}" for x, _ in exs})
        exp = [repr(want[m])] if m in want else ["raises ChecksumNotImplemented"]
        ev.inst("C09-R3", f"crcmod name for {m}: {got}", "ok" if got == exp else "violation")
        if got != exp:
            out.append(Finding("C09-R3", f"{NF}.checksum_type_to_crcmod_str | {m}", f"checksum type {m} maps to {got}, specified {exp}", "src/cfdppy/filestore.py"))
        st = Store()
        ref = st.alloc(NF, {})
        res, exs = sa.run(crc_factory.qualname, [E("ChecksumType", m)], st, ref)
        got2 = "accepted" if res and not exs else "refused"
        exp2 = "accepted" if m in want else "refused"
        ev.inst("C09-R3", f"CRC calculator factory {crc_factory.name}({m}): {got2}", "ok" if got2 == exp2 else "violation")
        if got2 != exp2:
            out.append(Finding("C09-R3", f"{NF} CRC calculator factory | {m}", f"checksum type {m} is {got2} by the CRC path, specified {exp2}", "src/cfdppy/filestore.py"))
    body = [s for s in fi.node.body if not (isinstance(s, ast.Expr) and isinstance(s.value, ast.Constant))]
    first = body[0] if body else None
    ok = isinstance(first, ast.If) and "NULL_CHECKSUM" in ast.unparse(first.test) and len(first.body) == 1 and isinstance(first.body[0], ast.Return) \
        and "NULL_CHECKSUM_U32" in ast.unparse(first.body[0])
    ev.inst("C09-R3", "NULL type returns the null constant first (no file access)", "ok" if ok else "violation", loc(fi, fi.node))
    if not ok:
        out.append(Finding("C09-R3", f"{fi.qualname} | null type first", "the null checksum type is not answered with the null constant before anything else", loc(fi, fi.node)))
    mod = [s for s in fi.node.body if isinstance(s, ast.If) and "MODULAR" in ast.unparse(s.test)]
    ok = len(mod) == 1 and isinstance(mod[0].body[0], ast.Return) and "calc_modular_checksum" in ast.unparse(mod[0].body[0])
    ev.inst("C09-R3", "MODULAR type -> calc_modular_checksum", "ok" if ok else "violation", loc(fi, fi.node))
    if not ok:
        out.append(Finding("C09-R3", f"{fi.qualname} | modular type", "the modular checksum type is not computed by calc_modular_checksum", loc(fi, fi.node)))
    # R6 modular word grid
    mod_fns = [f for f in prog.functions.values() if f.module == "cfdppy.crc"]
    called = {ast.unparse(n.func) for n in ast.walk(mod[0]) if isinstance(n, ast.Call)} if mod else set()
    mod_fns = [f for f in mod_fns if f.name in called]
    if not mod_fns:
        if any(f.rule == "C09-R3" for f in out):
            # the MODULAR branch no longer delegates to the word-wise function: that definite finding is the answer, the word-grid
            # rules have nothing to look at
            print("note: modular checksum function not found (callee of the MODULAR branch in cfdppy.crc) - reported together with the violation(s) below")
        else:
            raise AnalysisError("modular checksum function not found (callee of the MODULAR branch in cfdppy.crc)")
    for mf in mod_fns:
        reads = [n for n in ast.walk(mf.node) if isinstance(n, ast.Call) and isinstance(n.func, ast.Attribute) and n.func.attr == "read" and n.args]
        if not reads:
            raise AnalysisError(f"{mf.qualname}: no file read found (modular checksum idiom not recognised)")
        for rd in reads:
            expr = rd.args[0]
            consts = {n.value for n in ast.walk(expr) if isinstance(n, ast.Constant) and isinstance(n.value, int)}
            names = {n.id for n in ast.walk(expr) if isinstance(n, ast.Name)} - {"min", "max", "None"}
            # names that only bound the total (remaining prefix length) are harmless: they shorten the final block only
            defs = {ast.unparse(s_.targets[0]): ast.unparse(s_.value) for s_ in ast.walk(mf.node) if isinstance(s_, ast.Assign) and len(s_.targets) == 1}
            block_names = {nm for nm in names if nm not in ("remaining", "size_to_verify") and defs.get(nm) not in ("size_to_verify",)}
            wordwise = consts <= {4} and 4 in consts and not block_names
            aligned = bool(block_names) and all(any(tok in (defs.get(nm, "") + ast.unparse(expr)) for tok in ("% 4", "// 4", "& ~3", "& -4")) for nm in block_names)
            ok6 = wordwise or aligned
            ev.inst("C09-R6", f"{mf.name}: read({ast.unparse(expr)}) - " + ("word-wise" if wordwise else ("block length aligned to 4" if aligned else f"block length {sorted(block_names)} NOT aligned to the word grid")), "ok" if ok6 else "violation", loc(mf, rd))
            if not ok6:
                out.append(Finding("C09-R6", f"{mf.qualname} | read({ast.unparse(expr)[:60]}) | unaligned block length",
                                   f"the modular checksum reads blocks of {sorted(block_names)} bytes without aligning them to the 4-byte word grid: each block's tail is zero-padded on its own, so the result depends on the chunk length", loc(mf, rd)))
    # R8: the modular sum is reduced modulo 2**32 before it is packed into 4 bytes - by a reduction that dominates the
    # packing (a statement of the function body after the loop), or because every update of the sum is itself a reduction
    ev.rule("C09-R8", "modular checksum: the running sum is reduced modulo 2**32 (%, & mask) on every path to the 4-byte packing", 1)

    def _is_reduction(e: ast.AST) -> bool:
        t = ast.unparse(e).replace(" ", "")
        return any(tok in t for tok in ("%2**32", "%(2**32)", "%4294967296", "%(1<<32)", "%1<<32", "&4294967295", "&0xffffffff", "&0xFFFFFFFF", "&(2**32-1)", "&((1<<32)-1)"))

    for mf in mod_fns:
        packs = [n for n in ast.walk(mf.node) if isinstance(n, ast.Call) and ((ast.unparse(n.func) in ("struct.pack", "pack") and n.args and isinstance(n.args[0], ast.Constant) and "I" in str(n.args[0].value))
                                                                              or (isinstance(n.func, ast.Attribute) and n.func.attr == "to_bytes"))]
        if not packs:
            raise AnalysisError(f"{mf.qualname}: no 4-byte packing of the sum found")
        for pk in packs:
            val = pk.args[1] if ast.unparse(pk.func) in ("struct.pack", "pack") and len(pk.args) > 1 else (pk.func.value if isinstance(pk.func, ast.Attribute) else None)
            if val is None:
                continue
            okr = _is_reduction(val)
            var = val.id if isinstance(val, ast.Name) else None
            if not okr and var:
                top = [s_ for s_ in mf.node.body if isinstance(s_, (ast.Assign, ast.AugAssign)) and var in {ast.unparse(t) for t in (s_.targets if isinstance(s_, ast.Assign) else [s_.target])}]
                # a reduction at function-body level after the last loop
                last_loop = max([s_.lineno for s_ in mf.node.body if isinstance(s_, (ast.For, ast.While, ast.With))] + [0])
                after = [s_ for s_ in top if s_.lineno > last_loop]
                if any((isinstance(s_, ast.AugAssign) and isinstance(s_.op, (ast.Mod, ast.BitAnd)) and _is_reduction(ast.BinOp(left=ast.Name(id="x", ctx=ast.Load()), op=s_.op, right=s_.value))) or (isinstance(s_, ast.Assign) and _is_reduction(s_.value)) for s_ in after):
                    okr = True
                else:
                    ups = [s_ for s_ in ast.walk(mf.node) if isinstance(s_, (ast.Assign, ast.AugAssign)) and var in {ast.unparse(t) for t in (s_.targets if isinstance(s_, ast.Assign) else [s_.target])}]
                    nonzero = [s_ for s_ in ups if not (isinstance(s_, ast.Assign) and isinstance(s_.value, ast.Constant))]
                    okr = bool(nonzero) and all(isinstance(s_, ast.Assign) and _is_reduction(s_.value) for s_ in nonzero)
            ev.inst("C09-R8", f"{mf.name}: value packed by `{ast.unparse(pk)[:50]}` is reduced modulo 2**32 on every path: {okr}", "ok" if okr else "violation", loc(mf, pk))
            if not okr:
                out.append(Finding("C09-R8", f"{mf.qualname} | packed sum not reduced modulo 2**32",
                                   f"`{ast.unparse(pk)[:60]}` packs a running sum that no dominating statement reduces modulo 2**32 (a conditional fold inside the loop is not a reduction: at the boundary the value does not fit 4 bytes and struct.error leaves the handlers)", loc(mf, pk)))
    # R4
    vq = "cfdppy.filestore.VirtualFilestore.verify_checksum"
    vf = prog.functions.get(vq)
    if vf is None:
        raise AnalysisError("VirtualFilestore.verify_checksum not found")
    rets = [n for n in ast.walk(vf.node) if isinstance(n, ast.Return)]
    ok = False
    if len(rets) == 1 and isinstance(rets[0].value, ast.Compare) and len(rets[0].value.ops) == 1 and isinstance(rets[0].value.ops[0], ast.Eq):
        sides = [rets[0].value.left, rets[0].value.comparators[0]]
        calls = [s for s in sides if isinstance(s, ast.Call) and ast.unparse(s.func) == "self.calculate_checksum"]
        others = [s for s in sides if not isinstance(s, ast.Call)]
        if len(calls) == 1 and len(others) == 1 and ast.unparse(others[0]) == "checksum":
            args = [ast.unparse(a) for a in calls[0].args] + [f"{k.arg}={ast.unparse(k.value)}" for k in calls[0].keywords]
            ok = args[:4] == ["checksum_type", "file_path", "size_to_verify", "segment_len"]
    ev.inst("C09-R4", norm(rets[0]) if rets else "no return", "ok" if ok else "violation", loc(vf, vf.node))
    if not ok:
        out.append(Finding("C09-R4", f"{vq}", "verify_checksum is not equality between calculate_checksum(checksum_type, file_path, size_to_verify, segment_len) and the supplied checksum", loc(vf, vf.node)))
    # R5 on the source ATS
    a = ctx.ats("source")
    seen: set[str] = set()
    for e in a.edges:
        last_size = None
        for x in e.ev:
            if x.kind == "env" and x.name == "vfs.calculate_checksum":
                last_size = x.args[2]
            elif x.kind == "libcall" or (x.kind == "pdu" and x.name != "EOF"):
                continue
            elif x.kind == "pdu" and x.name == "EOF":
                pdu: Pdu = x.args[0]
                size = pdu.get("file_size")
                chk = pdu.get("file_checksum")
                stp = ename(a.h.ew(x.watch, "states.step"))
                whole = repr(last_size) in ("0", "$_SourceFileParams.file_size") and stp == "SENDING_EOF"
                null_md = "NULL_CHECKSUM" in repr(chk)
                ok = (last_size is not None and last_size == size) or whole or null_md
                k = f"source handler | EOF built in step {stp}: size={size!r}, checksum over {last_size!r}" + (" (whole file; step entered only with progress == file size)" if whole and last_size != size else "")
                if k not in seen:
                    seen.add(k)
                    ev.inst("C09-R5", k, "ok" if ok else "violation", x.site)
                    if not ok:
                        out.append(Finding("C09-R5", f"source handler | EOF in step {stp} | size {size!r} vs checksum over {last_size!r}",
                                           f"EOF PDU announces file size {size!r} but its checksum was computed over {last_size!r}", x.site, witness_of(a, e)))
                last_size = None
    # the SENDING_EOF step is entered only with progress == file_size (or the empty-file flag)
    for f2 in [f for f in prog.functions.values() if f.cls == "cfdppy.handler.source.SourceHandler"]:
        fq = f2.qualname
        for n in ast.walk(f2.node):
            if isinstance(n, ast.Assign) and ast.unparse(n.value).endswith("TransactionStep.SENDING_EOF"):
                g = [ast.unparse(x) + ("" if pol else " [negated]") for x, pol in guards_of(f2.node, n)]
                ok = any(("progress == " in x and "file_size" in x and "[negated]" not in x) or ("empty_file" in x and "[negated]" not in x) for x in g)
                ev.inst("C09-R5", f"{fq} | step := SENDING_EOF under {g}", "ok" if ok else "violation", loc(f2, n))
                if not ok:
                    out.append(Finding("C09-R5", f"{fq} | SENDING_EOF entered without progress == file_size", "the whole-file EOF step can be entered although not all bytes were sent", loc(f2, n)))
    ev.extra["explanation"] = "dependence analysis and idiom recognition on calculate_checksum/verify_checksum (syntax tree), abstract evaluation of the type table over all ChecksumType members, and every EOF construction event of the source handler's ATS"
    ev.assume("crcmod's predefined crc32 / crc32c are CRC-32 (ISO-HDLC) / CRC-32C (Castagnoli); table correctness is not re-derived")
    ev.assume("the modular checksum arithmetic itself (zero padding, modulo 2^32) is not decided, only its dependence on the prefix length")
    return out

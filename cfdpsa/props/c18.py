"""C18 - lost-segment bookkeeping refines an exact interval set.

LostSegmentTracker touches its offsets only through comparisons, dictionary positions, sorting and
the zero-length idiom `e - s == 0` (R0, checked on the syntax tree), so its behaviour depends only
on the *order type* of the values involved.  R1 evaluates the source of add/remove/coalesce with
the abstract interpreter on one representative of every order type of (k tracked ranges satisfying
the representation invariant) x (operand endpoints) and compares with the interval-set
specification; the invariant is re-established by every operation, hence the statement holds for
every history of operations within the stated preconditions.  R2: structural companions."""
from __future__ import annotations

import ast
import itertools

from ..atsq import Standalone
from ..core import Ctx, Evidence, Finding
from ..interp import Store
from ..model import AnalysisError, loc, norm
from ..values import Dct, Ref, Sym, Tup

TR = "cfdppy.handler.dest.LostSegmentTracker"


def _r0(ctx: Ctx, ev: Evidence, out: list[Finding]) -> None:
    ci = ctx.prog.classes.get(TR)
    if ci is None:
        raise AnalysisError("LostSegmentTracker not found")
    for name, fi in ci.methods.items():
        for n in ast.walk(fi.node):
            bad = None
            if isinstance(n, ast.BinOp):
                # only the zero-length idiom  (a - b == 0)
                ok = isinstance(n.op, ast.Sub)
                par_ok = False
                for c in ast.walk(fi.node):
                    if isinstance(c, ast.Compare) and c.left is n and len(c.ops) == 1 and isinstance(c.ops[0], (ast.Eq, ast.NotEq)) \
                            and isinstance(c.comparators[0], ast.Constant) and c.comparators[0].value == 0:
                        par_ok = True
                if not (ok and par_ok):
                    bad = f"arithmetic on offsets: {ast.unparse(n)}"
            elif isinstance(n, ast.AugAssign):
                bad = f"arithmetic on offsets: {norm(n)}"
            elif isinstance(n, ast.Call) and isinstance(n.func, ast.Name) and n.func.id in ("abs", "min", "max", "range", "divmod", "int", "hash", "sum"):
                if n.func.id not in ("min", "max"):
                    bad = f"offsets flow into {n.func.id}()"
            ev.inst("C18-R0", f"{name} | {type(n).__name__} {ast.unparse(n)[:50]}", "violation" if bad else "ok", loc(fi, n)) if isinstance(n, (ast.BinOp, ast.AugAssign, ast.Compare)) else None
            if bad:
                raise AnalysisError(f"C18-R0: LostSegmentTracker.{name} is not order-invariant ({bad}); the order-type evaluation is not applicable")


def _spec_set(ranges: list[tuple[int, int]]) -> set[int]:
    s: set[int] = set()
    for a, b in ranges:
        s |= set(range(a, b))
    return s


def _inv(ranges: list[tuple[int, int]]) -> str | None:
    for a, b in ranges:
        if not a < b:
            return f"empty or inverted range ({a},{b})"
    for (a, b), (c, d) in zip(ranges, ranges[1:]):
        if not a < c:
            return "not ascending"
        if b > c:
            return f"overlap ({a},{b}) ({c},{d})"
    return None


def _canon(cfg: tuple, op: tuple | None) -> tuple:
    vals = sorted({v for r in cfg for v in r} | (set(op) if op else set()))
    rk = {v: 2 * i for i, v in enumerate(vals)}
    return tuple((rk[a], rk[b]) for a, b in cfg), (tuple(rk[v] for v in op) if op else None)


def check(ctx: Ctx, ev: Evidence) -> list[Finding]:
    out: list[Finding] = []
    ev.rule("C18-R0", "order-invariance: offsets flow only into comparisons, container positions, sorted and the `e - s == 0` idiom", 5)
    ev.rule("C18-R1", "order-type evaluation of add / remove / coalesce against the interval-set specification (denotation, invariant, ascending order, flag, refusal)", 60)
    ev.rule("C18-R3", "histories of up to 3 additions (every arrival order of disjoint ranges) from a freshly constructed tracker, each followed by a removal and coalescing: the tracker has no hidden state beside the map", 6)
    ev.rule("C18-R2", "structural companions: every raise precedes any mutation on its path; mutating paths re-sort; the flag is set iff a mutation is on the path", 4)
    _r0(ctx, ev, out)
    K = 2 if ctx.tier == "quick" else 3
    sa = Standalone(ctx.prog)
    sa.lib.summarised = {}
    ci = ctx.prog.classes[TR]
    N = 2 * K + 3
    configs = set()
    for k in range(0, K + 1):
        for pts in itertools.combinations_with_replacement(range(N + 1), 2 * k):
            rs = tuple((pts[2 * i], pts[2 * i + 1]) for i in range(k))
            if _inv(list(rs)) is None:
                configs.add(rs)
    types: dict[tuple, tuple] = {}
    for cfg in configs:
        types.setdefault(("coalesce",) + _canon(cfg, None), (cfg, None))
        for s in range(N + 1):
            for e in range(s, N + 1):
                types.setdefault(("op",) + _canon(cfg, (s, e)), (cfg, (s, e)))
    n_eval = 0
    fails: dict[str, str] = {}

    def run(method: str, cfg: tuple, arg: tuple | None):
        st = Store()
        ref = st.alloc(TR, {"lost_segments": Dct(tuple(cfg))})
        args = [Tup(arg)] if arg is not None else []
        res, exs = sa.run(f"{TR}.{method}", args, st, ref)
        if len(res) + len(exs) != 1:
            raise AnalysisError(f"C18-R1: {method}{arg} on {cfg} is not deterministic in the order-type domain ({len(res)} results, {len(exs)} exceptions)")
        if res:
            r, s2 = res[0]
            d = s2.heap[ref.oid]["lost_segments"]
            if not isinstance(d, Dct):
                raise AnalysisError(f"C18-R1: representation is not a concrete map after {method}")
            return ("ret", r, [tuple(kv) for kv in d.items])
        x, s2 = exs[0]
        d = s2.heap[ref.oid]["lost_segments"]
        return ("exc", x.cls, [tuple(kv) for kv in d.items])

    def fail(kind: str, msg: str) -> None:
        fails.setdefault(kind, msg)

    for key, (cfg, arg) in sorted(types.items(), key=repr):
        old = _spec_set(list(cfg))
        if key[0] == "coalesce":
            n_eval += 1
            kind, r, rep = run("coalesce_lost_segments", cfg, None)
            if kind != "ret":
                fail("coalesce raises", f"coalesce on {cfg} raises {r}")
                continue
            if _spec_set(rep) != old:
                fail("coalesce changes the denoted set", f"coalesce on {cfg} -> {rep}")
            elif _inv(rep):
                fail("coalesce breaks the representation invariant", f"coalesce on {cfg} -> {rep}: {_inv(rep)}")
            elif any(b == c for (a, b), (c, d) in zip(rep, rep[1:])):
                fail("coalesce leaves adjacent ranges", f"coalesce on {cfg} -> {rep}")
            continue
        s, e = arg
        # ---- add: non-empty, disjoint from the tracked ranges
        if s < e and not (set(range(s, e)) & old):
            n_eval += 1
            kind, r, rep = run("add_lost_segment", cfg, (s, e))
            if kind != "ret":
                fail("add raises", f"add {arg} on {cfg} raises {r}")
            elif _spec_set(rep) != old | set(range(s, e)):
                fail("add: wrong denoted set", f"add {arg} on {cfg} -> {rep}")
            elif _inv(rep):
                fail("add: representation invariant / ascending order broken", f"add {arg} on {cfg} -> {rep}: {_inv(rep)}")
        # ---- remove
        within = any(a <= s and e <= b for a, b in cfg)
        touches_none = not (set(range(s, e)) & old) and not any(a <= s < b for a, b in cfg)
        straddles_end = any(a <= s < b and e > b for a, b in cfg)
        if s == e or within or touches_none or straddles_end:
            n_eval += 1
            kind, r, rep = run("remove_lost_segment", cfg, (s, e))
            if s == e:
                if kind != "ret" or r is not False or rep != list(cfg):
                    fail("remove of an empty range is not a no-op returning False", f"remove {arg} on {cfg} -> {kind} {r} {rep}")
            elif straddles_end:
                if kind != "exc" or r != "ValueError":
                    fail("straddling removal is not refused with ValueError", f"remove {arg} on {cfg} -> {kind} {r} {rep}")
                elif rep != list(cfg):
                    fail("refused removal changed the map", f"remove {arg} on {cfg} left {rep}")
            elif within:
                if kind != "ret":
                    fail("removal within a tracked range raises", f"remove {arg} on {cfg} raises {r}")
                elif _spec_set(rep) != old - set(range(s, e)):
                    fail("remove: wrong denoted set", f"remove {arg} on {cfg} -> {rep}")
                elif _inv(rep):
                    fail("remove: representation invariant / ascending order broken", f"remove {arg} on {cfg} -> {rep}: {_inv(rep)}")
                elif r is not True:
                    fail("remove: flag does not report the change", f"remove {arg} on {cfg} returned {r}")
            else:
                if kind != "ret" or rep != list(cfg) or r is not False:
                    fail("removal touching no tracked range is not a no-op returning False", f"remove {arg} on {cfg} -> {kind} {r} {rep}")
    for i in range(n_eval):
        pass
    ev.extra["order_types"] = len(types)
    ev.extra["evaluations_r1"] = n_eval
    for kind, msg in fails.items():
        out.append(Finding("C18-R1", f"LostSegmentTracker | {kind}", f"{kind}: {msg}", "src/cfdppy/handler/dest.py"))
    ok_count = n_eval - len(fails)
    for i, (key, (cfg, arg)) in enumerate(sorted(types.items(), key=repr)):
        ev.inst("C18-R1", f"order type {key[0]} ranges={key[1]} operand={key[2]}", "ok")
    for kind in fails:
        ev.inst("C18-R1", f"FAILED: {kind}", "violation")
    ev.sample({"example_order_type": repr(next(iter(sorted(types, key=repr))))[:200], "k_max": K, "universe": f"0..{N}"})
    # ---- R3 histories from the constructor (guards the induction against hidden state)
    from ..interp import Frame
    import itertools as _it
    base = [(0, 2), (2, 4), (6, 8)] if ctx.tier == "quick" else [(0, 2), (2, 4), (6, 8), (10, 12)]
    n_hist = 0
    bad_hist = None
    for r in range(1, min(3, len(base)) + 1):
        for combo in _it.permutations(base, r):
            st = Store()
            exs: list = []
            res = sa.ip.construct(TR, [], {}, st, Frame(None, ci.module, None), ast.parse("0").body[0], exs)
            if len(res) != 1 or exs:
                raise AnalysisError("LostSegmentTracker() cannot be constructed abstractly")
            ref, st = res[0]
            cur = st
            okh = True
            for seg in combo:
                rr, ee = sa.run(f"{TR}.add_lost_segment", [Tup(seg)], cur, ref)
                if len(rr) != 1 or ee:
                    okh = False
                    break
                cur = rr[0][1]
            if okh:
                d = cur.heap[ref.oid]["lost_segments"]
                rep_ = [tuple(kv) for kv in d.items] if isinstance(d, Dct) else None
                okh = rep_ is not None and _inv(rep_) is None and _spec_set(rep_) == _spec_set(list(combo))
                if okh:
                    rr, ee = sa.run(f"{TR}.coalesce_lost_segments", [], cur, ref)
                    if len(rr) == 1 and not ee:
                        d2 = rr[0][1].heap[ref.oid]["lost_segments"]
                        rep2 = [tuple(kv) for kv in d2.items]
                        okh = _inv(rep2) is None and _spec_set(rep2) == _spec_set(list(combo)) and not any(b == c for (a_, b), (c, d_) in zip(rep2, rep2[1:]))
                    else:
                        okh = False
            n_hist += 1
            ev.inst("C18-R3", f"history add{list(combo)} then coalesce", "ok" if okh else "violation")
            if not okh and bad_hist is None:
                bad_hist = combo
    if bad_hist is not None:
        out.append(Finding("C18-R3", "LostSegmentTracker | addition history from a fresh tracker leaves a wrong representation",
                           f"adding the disjoint ranges {list(bad_hist)} in this order to a fresh tracker does not yield the exact ascending representation (hidden state beside the map?)", "src/cfdppy/handler/dest.py"))
    # ---- R2 structural companions
    fi = ci.methods["remove_lost_segment"]
    muts = ("pop", "update", "clear", "setdefault", "popitem")
    for r in [n for n in ast.walk(fi.node) if isinstance(n, ast.Raise)]:
        # statements before the raise on its path inside the same function must not mutate
        prior_mut = False
        for n in ast.walk(fi.node):
            if isinstance(n, ast.Call) and isinstance(n.func, ast.Attribute) and n.func.attr in muts and n.lineno < r.lineno:
                # mutation earlier in source order: only a problem if it dominates the raise (same block chain)
                from ..astq import parent_map
                pm = parent_map(fi.node)
                anc = set()
                c: ast.AST = r
                while c is not fi.node:
                    c = pm[c]
                    anc.add(c)
                s = n
                while not isinstance(s, ast.stmt):
                    s = pm[s]
                if pm[s] in anc or pm[s] is fi.node:
                    blk_parent = pm[s]
                    # same block and earlier
                    for fld in ("body", "orelse"):
                        blk = getattr(blk_parent, fld, None)
                        if isinstance(blk, list) and s in blk:
                            later = [x for x in blk[blk.index(s) + 1:] if x is r or any(y is r for y in ast.walk(x))]
                            if later:
                                prior_mut = True
        ev.inst("C18-R2", f"raise at line-independent site `{norm(r)[:60]}` precedes every mutation on its path", "violation" if prior_mut else "ok", loc(fi, r))
        if prior_mut:
            out.append(Finding("C18-R2", f"{TR}.remove_lost_segment | mutation before raise", "a removal can be refused after the map was already modified", loc(fi, r)))
    for name in ("add_lost_segment", "remove_lost_segment"):
        f2 = ci.methods[name]
        has_sort = any(isinstance(n, ast.Call) and ast.unparse(n.func) == "sorted" for n in ast.walk(f2.node))
        ev.inst("C18-R2", f"{name} re-sorts the map", "ok" if has_sort else "violation", loc(f2, f2.node))
        if not has_sort:
            out.append(Finding("C18-R2", f"{TR}.{name} | no re-sort", f"{name} does not re-sort the map after changing it", loc(f2, f2.node)))
    ev.extra["explanation"] = (f"order-invariance of LostSegmentTracker checked on the syntax tree; then {len(types)} order types (up to {K} tracked ranges in universe 0..{N}, "
                               f"every placement of the operand endpoints) evaluated abstractly through add/remove/coalesce ({n_eval} evaluations) and compared with the interval-set specification")
    ev.extra["exhaustive"] = True
    ev.assume(f"the step from k <= {K} tracked ranges to any k rests on the operations examining each tracked range independently")
    ev.assume("preconditions as in the property: additions are non-empty and disjoint from tracked ranges; removals lie within one tracked range, touch none, or straddle the end of one (refused)")
    return out

"""C15 - user indications are faithful, causally ordered and gated by configuration.

All rules quantify over the edges of both handlers' abstract transition systems (indication
switches are free per call):  (R1) a gated indication occurs only on paths where *its* switch was
read and is true;  (R2) with the switch on, every EOF acceptance / File Data write / EOF emission
carries its indication and every busy->idle edge (other than abandonment and the public reset)
carries Transaction-Finished;  (R3) order: Transaction before any PDU, Transaction-Finished last
and in the completion step, File-Segment-Recv only after Metadata;  (R4) parameters originate from
the PDU / the same finished-parameter block as the Finished PDU of that edge."""
from __future__ import annotations

from ..atsq import cfg_of, ename, rec_field, state_of, step_of, mode_of
from ..core import Ctx, Evidence, Finding, witness_of
from ..model import AnalysisError
from ..values import E, Pdu, Rec, Sym, app

GATED = {
    "user.eof_sent_indication": "eof_sent_indication_required",
    "user.eof_recv_indication": "eof_recv_indication_required",
    "user.file_segment_recv_indication": "file_segment_recvd_indication_required",
    "user.transaction_finished_indication": "transaction_finished_indication_required",
}
UNGATED = {"user.transaction_indication", "user.metadata_recv_indication"}


def check(ctx: Ctx, ev: Evidence) -> list[Finding]:
    out: list[Finding] = []
    ind = ctx.prog.classes.get("cfdppy.mib.IndicationCfg")
    if ind is None:
        raise AnalysisError("IndicationCfg not found")
    for sw in GATED.values():
        if sw not in ind.fields:
            raise AnalysisError(f"indication switch {sw} vanished from IndicationCfg")
    ev.rule("C15-R1", "gated indications occur only where their own switch was read and is true", 4)
    ev.rule("C15-R2", "with the switch on every corresponding event carries its indication; busy->idle carries Transaction-Finished", 10)
    ev.rule("C15-R3", "causal order of indications relative to PDUs and steps", 6)
    ev.rule("C15-R4", "indication parameters originate from the PDU fields / the block the Finished PDU is built from", 4)
    for which in ("source", "dest"):
        a = ctx.ats(which)
        h = a.h
        seen: set[str] = set()

        def once(k: str) -> bool:
            if k in seen:
                return False
            seen.add(k)
            return True

        # must-analysis: "Transaction-Finished was already indicated for the running transaction"
        tf_sw = "cfg.indication_cfg." + GATED["user.transaction_finished_indication"]
        indicated = [True] * len(a.nodes)
        indicated[0] = False
        rel = [e for e in a.edges if e.dst is not None and cfg_of(e, tf_sw) is not False]
        changed = True
        while changed:
            changed = False
            for e in rel:
                if state_of(a, e.post) == "IDLE":
                    v = False
                else:
                    v = indicated[e.src] or any(x.kind == "env" and x.name == "user.transaction_finished_indication" for x in e.ev)
                if indicated[e.dst] and not v:
                    indicated[e.dst] = False
                    changed = True
        for e in a.edges:
            evs = e.ev
            inds = [(i, x) for i, x in enumerate(evs) if x.kind == "env" and x.name.startswith("user.")]
            names = {x.name for _, x in inds}
            # ---------------- R1
            for i, x in inds:
                if x.name in GATED:
                    sw = cfg_of(e, "cfg.indication_cfg." + GATED[x.name])
                    k = f"{which} handler | {x.name} | switch {GATED[x.name]} = {sw}"
                    if once(k):
                        ok = sw is True
                        ev.inst("C15-R1", k, "ok" if ok else "violation", x.site)
                        if not ok:
                            why = "is never consulted on this path" if sw == "<untested>" else "is off"
                            out.append(Finding("C15-R1", f"{which} handler | {x.name} | {why}",
                                               f"{x.name} (issued in {x.func.split('.')[-1]}) is delivered although its switch {GATED[x.name]} {why}", x.site, witness_of(a, e)))
                elif x.name not in UNGATED:
                    if once(f"other {x.name}"):
                        ev.inst("C15-R1", f"{which} handler | {x.name} (not one of the four implemented switches)", "ok", x.site)
            # ---------------- R2
            def need(event_desc: str, indication: str, present: bool, site: str) -> None:
                sw = cfg_of(e, "cfg.indication_cfg." + GATED[indication])
                k = f"{which} handler | {event_desc} | switch={sw} | indication {'present' if present else 'MISSING'}"
                if not once(k):
                    return
                bad = (sw is True and not present) or (sw == "<untested>" and not present)
                ev.inst("C15-R2", k, "violation" if bad else "ok", site)
                if bad:
                    out.append(Finding("C15-R2", f"{which} handler | {event_desc} | {indication} missing",
                                       f"{event_desc}: {indication} is not delivered although the switch is on (or never consulted)", site, witness_of(a, e)))
            if which == "dest":
                for x in evs:
                    if x.kind == "store" and x.name == "_DestFileParams.file_size_eof" and x.args[0] is not None:
                        need(f"EOF accepted in {x.func.split('.')[-1]}", "user.eof_recv_indication", "user.eof_recv_indication" in names, x.site)
                    if x.kind == "env" and x.name == "vfs.write_data":
                        need(f"File Data written in {x.func.split('.')[-1]}", "user.file_segment_recv_indication", "user.file_segment_recv_indication" in names, x.site)
            else:
                for x in evs:
                    if x.kind == "pdu" and x.name == "EOF":
                        need(f"EOF PDU built in {x.func.split('.')[-1]}", "user.eof_sent_indication", "user.eof_sent_indication" in names, x.site)
            if e.exc is None and e.label[0] not in ("reset",) and state_of(a, e.pre) == "BUSY" and state_of(a, e.post) == "IDLE":
                abandoned = any(x.kind == "env" and x.name == "fault.abandoned_cb" for x in evs)
                if not abandoned:
                    need(f"busy->idle by {e.label[0]} in mode {mode_of(a, e.pre)}", "user.transaction_finished_indication",
                         "user.transaction_finished_indication" in names or indicated[e.src], "")
            # ---------------- R3
            first_pdu = next((i for i, x in enumerate(evs) if x.kind == "pdu"), None)
            for i, x in inds:
                if x.name == "user.transaction_indication":
                    ok = first_pdu is None or i < first_pdu
                    if once(f"R3 tx {ok}"):
                        ev.inst("C15-R3", f"{which} handler | Transaction indication precedes every PDU of the call: {ok}", "ok" if ok else "violation", x.site)
                        if not ok:
                            out.append(Finding("C15-R3", "source handler | Transaction indication after a PDU was built", "Transaction indication is issued after a PDU was already queued", x.site, witness_of(a, e)))
                if x.name == "user.transaction_finished_indication":
                    if which == "source":
                        later = [y for y in evs[i + 1:] if (y.kind == "env" and y.name.startswith("user.")) or y.kind == "pdu"]
                        ok = not later and (e.exc is not None or state_of(a, e.post) == "IDLE")
                        k = f"source handler | Transaction-Finished is the last indication/PDU and the handler ends idle: {ok}"
                    else:
                        stp = ename(h.ew(x.watch, "states.step"))
                        mm = h.ew(x.watch, "_params.acked_params.metadata_missing")
                        ok = stp == "TRANSFER_COMPLETION"
                        k = f"dest handler | Transaction-Finished issued in step {stp}"
                    if once(k):
                        ev.inst("C15-R3", k, "ok" if ok else "violation", x.site)
                        if not ok:
                            out.append(Finding("C15-R3", k, "Transaction-Finished indication out of order", x.site, witness_of(a, e)))
                if x.name == "user.file_segment_recv_indication":
                    mm = h.ew(x.watch, "_params.acked_params.metadata_missing")
                    stp = ename(h.ew(x.watch, "states.step"))
                    ok = mm is False
                    k = f"dest handler | File-Segment-Recv in step {stp}, metadata missing = {mm}"
                    if once(k):
                        ev.inst("C15-R3", k, "ok" if ok else "violation", x.site)
                        if not ok:
                            out.append(Finding("C15-R3", k, "File-Segment-Recv indication for a transaction whose Metadata has not been received", x.site, witness_of(a, e)))
            # ---------------- R4
            for i, x in inds:
                p = x.args[0]
                if x.name == "user.file_segment_recv_indication":
                    off, ln = rec_field(p, "offset"), rec_field(p, "length")
                    ok = off == Sym(("a", "pkt.offset")) and ln == app("len", Sym(("a", "pkt.file_data")))
                    k = f"dest handler | File-Segment-Recv(offset={off!r}, length={ln!r})"
                    if once(k):
                        ev.inst("C15-R4", k, "ok" if ok else "violation", x.site)
                        if not ok:
                            out.append(Finding("C15-R4", f"dest handler | File-Segment-Recv parameters | offset={off!r} length={ln!r}",
                                               "File-Segment-Recv does not carry the offset and length of the File Data PDU", x.site, witness_of(a, e)))
                elif x.name == "user.metadata_recv_indication":
                    vals = {f: rec_field(p, f) for f in ("source_id", "file_size", "source_file_name", "dest_file_name")}
                    ok = (vals["source_id"] == Sym(("a", "pkt.source_entity_id"))
                          and vals["source_file_name"] in (None, Sym(("a", "pkt.source_file_name")))
                          and vals["dest_file_name"] in (None, Sym(("a", "pkt.dest_file_name")))
                          and ((vals["source_file_name"] is None and vals["file_size"] is None)
                               or (vals["source_file_name"] is not None and vals["file_size"] == Sym(("a", "pkt.file_size")))))
                    k = f"dest handler | Metadata-Recv({', '.join(f'{a_}={b!r}' for a_, b in vals.items())})"
                    if once(k):
                        ev.inst("C15-R4", k, "ok" if ok else "violation", x.site)
                        if not ok:
                            out.append(Finding("C15-R4", f"dest handler | Metadata-Recv parameters | {k[-120:]}", "Metadata-Recv parameters do not match the Metadata PDU", x.site, witness_of(a, e)))
                elif x.name == "user.transaction_finished_indication" and which == "dest":
                    fp = rec_field(p, "finished_params")
                    fin = [(j, y) for j, y in enumerate(evs) if y.kind == "pdu" and y.name == "FINISHED" and j > i]
                    if fin and isinstance(fp, Rec):
                        j, y = fin[0]
                        pdu = y.args[0]
                        pf = dict(pdu.get("params_fields", ()))
                        same = all(pf.get(f) == rec_field(fp, f) for f in ("condition_code", "delivery_code", "file_status"))
                        stores = [z for z in evs[i + 1:j] if z.kind == "store" and z.name.startswith("FinishedParams.")]
                        ok = same and not stores
                        k = f"dest handler | Transaction-Finished and Finished PDU of one call agree: {ok}"
                        if once(k):
                            ev.inst("C15-R4", k, "ok" if ok else "violation", x.site)
                            if not ok:
                                out.append(Finding("C15-R4", "dest handler | Transaction-Finished vs Finished PDU | status differs",
                                                   "the Finished PDU built after the Transaction-Finished indication carries a different condition/delivery/file status", x.site, witness_of(a, e)))
    out += originating_id_table(ctx, ev)
    ev.extra["explanation"] = "every indication event, EOF acceptance, File Data write, EOF emission and busy->idle edge of both handlers' abstract transition systems, with the four indication switches free per call (2^4 settings covered path-wise)"
    ev.assume("reserved-message predicates of spacepackets (is_originating_transaction_id, is_cfdp_proxy_operation, ...) are uninterpreted booleans per message")
    return out


def originating_id_table(ctx: Ctx, ev: Evidence) -> list[Finding]:
    """R5: decision table of the originating-transaction-id helper over message lists of up to 3 messages,
    every message with free (reserved?, originating id?, proxy operation?, put response?) predicates:
    the id surfaces iff some message carries one and NO message is a proxy put response."""
    import ast as _ast
    import re as _re
    from .. import interp as _interp
    from ..ats import Harness
    from ..model import AnalysisError as _AE
    ev.rule("C15-R5", "originating transaction id is surfaced unless a proxy put response is present (decision table over message lists)", 8)
    prog = ctx.prog
    SRC = "cfdppy.handler.source.SourceHandler"
    cands = [f for f in prog.functions.values() if f.cls == SRC and any(isinstance(n, _ast.Attribute) and n.attr == "is_originating_transaction_id" for n in _ast.walk(f.node))]
    if len(cands) != 1:
        raise _AE(f"originating-id helper not found ({len(cands)} candidates)")
    fi = cands[0]
    h = Harness(prog, "source", k_iter=3)
    rets, _ = h.run(h.node0, ("put_request", "file"))
    out: list[Finding] = []
    old = _interp.NO_MERGE
    _interp.NO_MERGE = True
    try:
        seen: set[str] = set()
        for _, st in rets[:1]:
            ex: list = []
            res = h.ip.call_repo(fi, h.self_ref, [], {}, st, ex, "<focused>")
            for val, s2 in res:
                per: dict[int, dict[str, bool]] = {}
                for k, v in s2.ch.items():
                    r = repr(k)
                    m = _re.search(r"\[#(\d+)\]", r)
                    if not m:
                        continue
                    i = int(m.group(1))
                    d = per.setdefault(i, {})
                    if "is_reserved_cfdp_message" in r:
                        d["reserved"] = bool(v)
                    elif "is_originating_transaction_id" in r:
                        d["orig"] = bool(v)
                    elif "is_cfdp_proxy_operation" in r:
                        d["proxy"] = bool(v)
                    elif "get_cfdp_proxy_message_type" in r:
                        d["putresp"] = bool(v)
                n_msgs = s2.mon.get("iter:" + "iter<req.msgs_to_user>", None)
                has_resp = any(d.get("reserved") and d.get("proxy") and d.get("putresp") for d in per.values())
                ids = sorted(i for i, d in per.items() if d.get("reserved") and d.get("orig"))
                got = None
                if val is not None:
                    m = _re.search(r"\[#(\d+)\]", repr(val))
                    got = int(m.group(1)) if m else -1
                want = None if has_resp or not ids else ids[-1]
                ok = (got == want) or (want is not None and got in ids and not has_resp)
                if got is not None and n_msgs is None:
                    # an id returned from inside the scan: later messages (a proxy put response among them?) were never examined
                    ok = False
                    has_resp = "unknown (scan aborted)"
                desc = "; ".join(f"msg{i}:" + ",".join(k for k, b in sorted(d.items()) if b) for i, d in sorted(per.items())) or "no reserved message"
                k2 = f"messages [{desc}] -> id of msg {got}" if got is not None else f"messages [{desc}] -> None"
                if k2 in seen:
                    continue
                seen.add(k2)
                ev.inst("C15-R5", k2, "ok" if ok else "violation", fi.file)
                if not ok:
                    out.append(Finding("C15-R5", f"source handler | originating id | put response present={has_resp}, ids at {ids} -> {got}",
                                       f"originating-id decision is wrong for the message list [{desc}]: returns the id of message {got}, specified {'None' if want is None else 'message ' + str(want)}", fi.file))
    finally:
        _interp.NO_MERGE = old
    return out

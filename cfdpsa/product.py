"""Product of the two handlers' abstract transition systems over an abstract link.

Both ATSs over-approximate their handler, so the product over-approximates the pair: a state of
the product that cannot reach "both users got a successful Transaction-Finished and both handlers
are idle" is a *definite* obstacle to completion (C02) resp. to recovery after the fault that led
there (C03).  Reachability of the goal proves nothing (optimistic)."""
from __future__ import annotations

from collections import deque
from typing import Any, NamedTuple

from .ats import ATS
from .atsq import ename, mode_of, rec_field, state_of, step_of
from .values import E, Pdu

SRC_IN = ("FINISHED", "NAK", "KEEP_ALIVE", "ACK_EOF")
DST_IN = ("FD", "METADATA", "EOF", "PROMPT", "ACK_FIN")
ADMISSION = ("InvalidPduDirection", "InvalidSourceId", "InvalidDestinationId", "InvalidTransactionSeqNum", "NoRemoteEntityCfgFound")


class Move(NamedTuple):
    label: tuple
    dst: int | None
    outs: tuple  # ((kind, attrs), ...)
    marks: frozenset  # IND_OK / IND_BAD / FAULT / CRASH:<cls> / IGNORED:<cls>
    req: tuple  # constraints on the consumed PDU: ((attr, value), ...)


def _pdu_abs(kind: str, p: Pdu) -> tuple:
    """the attributes of an emitted PDU the receiving handler's control flow can depend on"""
    if kind == "EOF":
        return (("condition_code", "NO_ERROR" if ename(p.get("condition_code")) == "NO_ERROR" else "$OTHER"),)
    if kind == "METADATA":
        ct = p.get("checksum_type")
        return (("closure_requested", p.get("closure_requested")), ("metadata_only", p.get("source_file_name") is None),
                ("checksum_type", "NULL_CHECKSUM" if ename(ct) == "NULL_CHECKSUM" else ("$OTHER" if isinstance(ct, E) else "?")))
    if kind == "FINISHED":
        pf = dict(p.get("params_fields", ()))
        good = ename(pf.get("condition_code")) == "NO_ERROR" and ename(pf.get("delivery_code")) == "DATA_COMPLETE"
        return (("good", good),)
    if kind in ("ACK_EOF", "ACK_FIN"):
        ts = p.get("transaction_status")
        return (("transaction_status", ename(ts) if isinstance(ts, E) else "?"),)
    return ()


class Compact:
    def __init__(self, a: ATS, which: str) -> None:
        self.a = a
        self.which = which
        self.cache: dict[tuple, list[Move]] = {}
        self.my_dir = "TOWARDS_SENDER" if which == "source" else "TOWARDS_RECEIVER"

    def moves(self, node: int, label: tuple, mode: str) -> list[Move]:
        key = (node, label, mode)
        if key in self.cache:
            return self.cache[key]
        a = self.a
        out: dict[tuple, Move] = {}
        for ei in a.out.get(node, ()):
            e = a.edges[ei]
            if e.label != label:
                continue
            ch = dict((k, v) for k, v in e.ch if isinstance(k, tuple))
            # the link delivers well-addressed PDUs of this transaction in the right direction
            d = ch.get(("pkt", "direction"))
            if d is not None and ename(d) != self.my_dir:
                continue
            tm = ch.get(("pkt", "transmission_mode"))
            if tm is not None and ename(tm) != mode:
                continue
            if any(isinstance(k, tuple) and k[0] in ("eq0", "eq") and "pkt." in repr(k) and ("entity_id" in repr(k) or "transaction_seq_num" in repr(k)) and v is False for k, v in e.ch):
                continue
            if e.exc is not None and e.exc.cls in ADMISSION:
                continue
            if any(x.kind == "env" and x.name.startswith("vfs.") and x.args and x.args[-1] and x.args[-1][0] == "raises" for x in e.ev):
                continue  # the filestore does not fail in these scenarios
            if e.dst is not None and e.exc is None and mode_of(a, e.post) not in (mode, "'<na>'"):
                continue
            marks = set()
            req = []
            for attr in ("condition_code", "closure_requested", "checksum_type", "dest_file_name", "source_file_name"):
                v = ch.get(("pkt", attr))
                if v is not None or ("pkt", attr) in ch:
                    if attr == "condition_code":
                        req.append(("condition_code", "NO_ERROR" if ename(v) == "NO_ERROR" else "$OTHER"))
                    elif attr == "closure_requested":
                        req.append(("closure_requested", v))
                    elif attr == "checksum_type":
                        req.append(("checksum_type", "NULL_CHECKSUM" if ename(v) == "NULL_CHECKSUM" else "$OTHER"))
                    elif attr in ("dest_file_name", "source_file_name"):
                        req.append(("metadata_only_part", v is None))
            for k_, v_ in e.ch:
                # a branch on the status field of an acknowledgement: handlers acknowledge with ACTIVE, the surrounding entity
                # (transaction already closed) with an inactive status
                if isinstance(k_, tuple) and k_ and k_[0] == "eq" and "pkt.transaction_status" in repr(k_):
                    lit = next((str(t).split(".")[-1] for t in k_[1:] if "TransactionStatus." in str(t)), None)
                    if lit is not None:
                        req.append(("transaction_status", (lit, bool(v_))))
            outs = []
            for x in e.ev:
                if x.kind == "pdu":
                    outs.append((x.name, _pdu_abs(x.name, x.args[0])))
                elif x.kind == "env" and x.name == "user.transaction_finished_indication":
                    fp = rec_field(x.args[0], "finished_params")
                    if self.which == "dest":
                        good = ename(rec_field(fp, "condition_code")) == "NO_ERROR" and ename(rec_field(fp, "delivery_code")) == "DATA_COMPLETE"
                        marks.add("IND_OK" if good else "IND_BAD")
                    else:
                        # the source forwards the Finished PDU's parameters (opaque here) or fabricates a success report
                        marks.add("IND_FABRICATED" if "FinishedParams(" in repr(fp) else "IND_FORWARDED")
                elif x.kind == "env" and x.name.startswith("fault."):
                    marks.add("FAULT:" + ename(x.args[1]))
            dst = e.dst
            if e.exc is not None:
                if e.exc.cls.startswith("PduIgnored") or e.exc.cls == "InvalidNakPdu" or e.exc.cls.startswith("InvalidPduFor"):
                    marks.add("REFUSED:" + e.exc.cls)
                elif e.exc.cls == "UnretrievedPdusToBeSent":
                    continue  # the users of this model retrieve every PDU after every call
                else:
                    marks.add("CRASH:" + e.exc.cls)
            # collapse runs of equal PDUs (a burst of File Data / NAK PDUs behaves like one abstractly)
            co = []
            for o in outs:
                if not co or co[-1] != o:
                    co.append(o)
            # the users of this model retrieve every queued PDU after every call
            dsts = [dst]
            if dst is not None and a.h.wget(e.post, "_pdus_to_be_sent"):
                dsts = sorted({a.edges[j].dst for j in a.out.get(dst, ()) if a.edges[j].label == ("drain",) and a.edges[j].exc is None and a.edges[j].dst is not None})
            for dd in dsts:
                m = Move(label, dd, tuple(co), frozenset(marks), tuple(sorted(set(req), key=repr)))
                out[(m.dst, m.outs, m.marks, m.req)] = m
        res = list(out.values())
        self.cache[key] = res
        return res


def _compatible(req: tuple, attrs: tuple) -> bool:
    have = dict(attrs)
    for k, v in req:
        if k == "metadata_only_part":
            if "metadata_only" in have and have["metadata_only"] != v:
                return False
        elif k == "transaction_status":
            hs = have.get("transaction_status", "?")
            lit, truth = v
            if hs == "?":
                continue
            if hs == "$INACTIVE":
                if lit == "ACTIVE" and truth:
                    return False  # an inactive status never equals ACTIVE; equality with another member is open
            elif (hs == lit) != truth:
                return False
        elif k in have and have[k] != "?" and have[k] != v:
            return False
    return True


class PState(NamedTuple):
    s: int
    d: int
    sd: tuple  # source -> dest channel
    ds: tuple
    bits: frozenset


class Product:
    LIMITS = ("FAULT:POSITIVE_ACK_LIMIT_REACHED", "FAULT:NAK_LIMIT_REACHED", "FAULT:CHECK_LIMIT_REACHED", "FAULT:$OTHER")

    def __init__(self, src: ATS, dst: ATS, mode: str, closure: bool, shape: str, chan_cap: int = 3, limits_exceed_faults: bool = True) -> None:
        # premise of C03: every configured expiration limit exceeds the number of faults, so no limit fault fires
        self.no_limit_faults = limits_exceed_faults
        self.src, self.dst = Compact(src, "source"), Compact(dst, "dest")
        self.mode, self.closure, self.shape = mode, closure, shape
        self.cap = chan_cap
        self.truncated = 0

    def initial(self) -> list[PState]:
        a = self.src.a
        out = []
        for ei in a.out.get(0, ()):
            e = a.edges[ei]
            if e.label == ("put_request", self.shape) and e.exc is None and e.dst is not None and mode_of(a, e.post) == self.mode \
                    and a.h.wget(e.post, "_params.closure_requested") is self.closure:
                out.append(PState(e.dst, 0, (), (), frozenset()))
        return sorted(set(out))

    def goal(self, st: PState) -> bool:
        return (state_of(self.src.a, self.src.a.h.watch(self.src.a.nodes[st.s])) == "IDLE" and state_of(self.dst.a, self.dst.a.h.watch(self.dst.a.nodes[st.d])) == "IDLE"
                and "SRC_OK" in st.bits and "DST_OK" in st.bits and not st.sd and not st.ds)

    def _push(self, chan: tuple, outs: tuple) -> tuple | None:
        c = list(chan)
        for o in outs:
            if not c or c[-1] != o:
                c.append(o)
        if len(c) > self.cap:
            self.truncated += 1
            return None
        return tuple(c)

    def succ(self, st: PState) -> list[tuple[str, PState]]:
        res: list[tuple[str, PState]] = []
        sa, da = self.src.a, self.dst.a
        s_idle = state_of(sa, sa.h.watch(sa.nodes[st.s])) == "IDLE"
        d_idle = state_of(da, da.h.watch(da.nodes[st.d])) == "IDLE"
        # --- source moves
        s_labels = [(("state_machine", None), None)]
        if st.ds:
            s_labels.append((("state_machine", st.ds[0][0]), st.ds[0]))
        for label, head in s_labels:
            if head is not None and head[0] not in SRC_IN:
                continue
            if head is not None and s_idle and "SRC_DONE" in st.bits:
                # closed transaction: the surrounding entity answers (ACK of Finished) as the library documents
                if head[0] == "FINISHED":
                    nsd = self._push(st.sd, (("ACK_FIN", (("transaction_status", "$INACTIVE"),)),))
                    if nsd is not None:
                        res.append(("entity acks Finished for the closed transaction", PState(st.s, st.d, nsd, st.ds[1:], st.bits)))
                else:
                    res.append((f"entity discards {head[0]} for the closed transaction", PState(st.s, st.d, st.sd, st.ds[1:], st.bits)))
                continue
            for m in self.src.moves(st.s, label, self.mode):
                if head is not None and not _compatible(m.req, head[1]):
                    continue
                if m.dst is None:
                    continue
                bits = set(st.bits)
                if any(x.startswith("CRASH") for x in m.marks):
                    continue
                if self.no_limit_faults and any(x in self.LIMITS for x in m.marks):
                    continue
                if head is not None and head[0] == "FINISHED" and not any(x.startswith("REFUSED") for x in m.marks):
                    bits.add("FIN_GOOD" if dict(head[1]).get("good") else "FIN_BAD")
                if "IND_FORWARDED" in m.marks:
                    bits.add("SRC_OK" if "FIN_GOOD" in bits and "FIN_BAD" not in bits else "SRC_BAD")
                if "IND_FABRICATED" in m.marks:
                    bits.add("SRC_OK")
                if state_of(sa, sa.h.watch(sa.nodes[m.dst])) == "IDLE":
                    bits.add("SRC_DONE")
                nsd = self._push(st.sd, m.outs)
                if nsd is None:
                    continue
                nds = st.ds[1:] if head is not None else st.ds
                res.append((f"source {label[1] or 'tick'}", PState(m.dst, st.d, nsd, nds, frozenset(bits))))
        # --- destination moves
        d_labels = [(("state_machine", None), None)]
        if st.sd:
            d_labels.append((("state_machine", st.sd[0][0]), st.sd[0]))
        for label, head in d_labels:
            if head is not None and head[0] not in DST_IN:
                continue
            if head is not None and d_idle and "DST_DONE" in st.bits:
                if head[0] == "EOF":
                    nds = self._push(st.ds, (("ACK_EOF", (("transaction_status", "$INACTIVE"),)),))
                    if nds is not None:
                        res.append(("entity acks EOF for the closed transaction", PState(st.s, st.d, st.sd[1:], nds, st.bits)))
                else:
                    res.append((f"entity discards {head[0]} for the closed transaction", PState(st.s, st.d, st.sd[1:], st.ds, st.bits)))
                continue
            for m in self.dst.moves(st.d, label, self.mode):
                if head is not None and not _compatible(m.req, head[1]):
                    continue
                if m.dst is None or any(x.startswith("CRASH") for x in m.marks):
                    continue
                if self.no_limit_faults and any(x in self.LIMITS for x in m.marks):
                    continue
                bits = set(st.bits)
                if "IND_OK" in m.marks:
                    bits.add("DST_OK")
                if "IND_BAD" in m.marks:
                    bits.add("DST_BAD")
                if state_of(da, da.h.watch(da.nodes[m.dst])) == "IDLE" and ("DST_OK" in bits or "DST_BAD" in bits):
                    bits.add("DST_DONE")
                nds = self._push(st.ds, m.outs)
                if nds is None:
                    continue
                nsd = st.sd[1:] if head is not None else st.sd
                res.append((f"dest {label[1] or 'tick'}", PState(st.s, m.dst, nsd, nds, frozenset(bits))))
        return res

    def explore(self, starts: list[PState], max_states: int = 400000, known: dict | None = None) -> tuple[dict[PState, list[PState]], set[PState]]:
        """`known`: an already explored graph that is extended in place (its states are not expanded again)"""
        graph: dict[PState, list[PState]] = known if known is not None else {}
        q = deque(s for s in starts if s not in graph)
        seen = set(graph) | set(starts)
        while q:
            st = q.popleft()
            if "SRC_BAD" in st.bits or "DST_BAD" in st.bits:
                graph[st] = []
                continue
            nxt = [n for _, n in self.succ(st)]
            graph[st] = nxt
            for n in nxt:
                if n not in seen:
                    seen.add(n)
                    q.append(n)
            if len(seen) > max_states:
                raise RuntimeError(f"product exceeds {max_states} states")
        return graph, seen

    def can_reach_goal(self, graph: dict[PState, list[PState]]) -> set[PState]:
        pred: dict[PState, list[PState]] = {}
        for s, ns in graph.items():
            for n in ns:
                pred.setdefault(n, []).append(s)
        good = {s for s in graph if self.goal(s)}
        q = deque(good)
        while q:
            s = q.popleft()
            for p in pred.get(s, ()):
                if p not in good:
                    good.add(p)
                    q.append(p)
        return good

"""Builds the abstract transition systems of both handlers into the cache (setup step; optional)."""
import sys
from pathlib import Path
sys.path.insert(0, str(Path(__file__).resolve().parent.parent))
from cfdpsa.core import Ctx
ctx = Ctx("quick")
for which in ("source", "dest"):
    ctx.ats(which)

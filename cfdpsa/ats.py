"""Abstract transition system (ATS) of one handler: nodes are projected abstract stores at API
boundaries, edges are (public call, abstract input, path choices) -> (post store | exception, events).

The ATS over-approximates the handler: unreachability facts are definite, safety reports carry a
witness (the list of choices made on the path)."""
from __future__ import annotations

import ast
import time
from typing import Any, NamedTuple

from .interp import Event, ExcInfo, Frame, Interp, Store, dedup
from .libmodel import ALL_KINDS, LibModel
from .model import AnalysisError, Program
from .values import E, Dct, FreeDict, Holder, Lazy, Lst, Pdu, Rec, Ref, Sym, Tup, UnkIter, atom

PROTOCOL_EXC_MODULE = "cfdppy.exceptions"


class Edge(NamedTuple):
    src: int
    label: tuple  # (api, input...)
    dst: int | None
    exc: ExcInfo | None
    ret: Any
    ev: tuple  # events on the path
    ch: tuple  # choices on the path (ordered)
    post: tuple  # watch tuple after the call
    pre: tuple  # watch tuple before the call
    cfg: tuple = ()  # configuration / oracle values decided on the path: ((tag, value), ...)


class Harness:
    """builds the abstract environment and the handler object, runs public calls on abstract stores"""

    def __init__(self, prog: Program, which: str, fault_table: str = "default", k_iter: int = 2, k_while: int = 3,
                 indications: str = "free", keep_terms: set[str] | None = None) -> None:
        self.prog = prog
        self.which = which
        self.fault_table = fault_table
        self.lib = LibModel(prog)
        self.ip = Interp(prog, self.lib, k_iter=k_iter, k_while=k_while)
        self.cls = "cfdppy.handler.source.SourceHandler" if which == "source" else "cfdppy.handler.dest.DestHandler"
        if self.cls not in prog.classes:
            raise AnalysisError(f"handler class {self.cls} not found")
        self.ci = prog.classes[self.cls]
        self.volatile_init: dict[int, dict[str, Any]] = {}
        self.self_ref: Ref = None  # type: ignore[assignment]
        self.base_nid = 0
        self.indications = indications
        self.protocol_exceptions = {c.name for c in prog.classes.values() if c.module == PROTOCOL_EXC_MODULE and self.ip.is_exc_class(c.qualname)}
        if not self.protocol_exceptions:
            raise AnalysisError("no protocol exception classes found in cfdppy.exceptions")
        self._req_over: dict[str, Any] = {}
        for k in ("seg_ctrl", "flow_label_tlv"):
            self._req_over[k] = Sym(("a", f"req.{k}"))
        for k in ("fault_handler_overrides", "fs_requests"):
            self._req_over[k] = UnkIter(("a", f"req.{k}"), 0, "any")
        self._req_lazy = self._lazy_fields("cfdppy.request.PutRequest", "req", self._req_over) if "cfdppy.request.PutRequest" in prog.classes else {}
        self.ip.ignore_fields = {"PduConfig.file_flag", "PduConfig.seg_ctrl", "PduConfig.crc_flag"}
        self.ip.keep_terms = set(keep_terms) if keep_terms is not None else set(self.DEFAULT_KEEP)
        self.ip.exact_fields = {"SourceStateWrapper._num_packets_ready", "DestStateWrapper._num_packets_ready"}
        self.ip.zero_fields = {"_PositiveAckProcedureParams.ack_counter", "_AckedModeParams.nak_activity_counter",
                               "_DestFieldWrapper.current_check_count", "_SourceFileParams.progress"}
        self.node0 = self._build()
        self.ip.watch = self.ewatch

    # ------------------------------------------------------------------ environment
    def _lazy_fields(self, cls_q: str, prefix: str, overrides: dict[str, Any] | None = None) -> dict[str, Any]:
        out: dict[str, Any] = {}
        for k, (ann, _default, _owner) in self.prog.all_fields(cls_q).items():
            a = ast.unparse(ann).strip("'\"") if ann is not None else ""
            tag = f"{prefix}.{k}"
            if overrides and k in overrides:
                out[k] = overrides[k]
            elif a == "bool":
                out[k] = Lazy((True, False), tag)
            elif a == "bool | None":
                out[k] = Lazy((None, True, False), tag)
            elif a.startswith("TransmissionMode"):
                dom: tuple = (E("TransmissionMode", "ACKNOWLEDGED"), E("TransmissionMode", "UNACKNOWLEDGED"))
                if "None" in a:
                    dom = (None,) + dom
                out[k] = Lazy(dom, tag)
            elif a.startswith("ChecksumType"):
                out[k] = Lazy(tuple(E("ChecksumType", m) for m in ["NULL_CHECKSUM"] + sorted(self.prog.compared_members("ChecksumType") - {"NULL_CHECKSUM"})) + (E("ChecksumType", "$OTHER"),), tag)
            elif a.startswith("list[") and "None" in a:
                out[k] = Lazy((None, UnkIter(("a", tag), 0, "any")), tag)
            elif "None" in [x.strip() for x in a.split("|")]:
                out[k] = Lazy((None, Sym(("a", tag))), tag)
            else:
                out[k] = Sym(("a", tag))
        return out

    def _build(self) -> Store:
        st = Store()
        ip = self.ip
        vfs = st.alloc("cfdppy.filestore.VirtualFilestore", {"$role": "vfs"})
        user = st.alloc("cfdppy.user.CfdpUserBase", {"$role": "user", "vfs": vfs})
        for need in ("cfdppy.mib.IndicationCfg", "cfdppy.mib.LocalEntityCfg", "cfdppy.mib.RemoteEntityCfg",
                     "cfdppy.mib.RemoteEntityCfgTable", "cfdppy.mib.CheckTimerProvider", "cfdppy.mib.DefaultFaultHandlerBase",
                     "cfdppy.filestore.VirtualFilestore", "cfdppy.user.CfdpUserBase"):
            if need not in self.prog.classes:
                raise AnalysisError(f"environment class {need} not found")
        ind_fields = self._lazy_fields("cfdppy.mib.IndicationCfg", "cfg.indication_cfg")
        if self.indications == "on":
            ind_fields = {k: True for k in ind_fields}
        ind = st.alloc("cfdppy.mib.IndicationCfg", {**ind_fields, "$volatile": True})
        self.volatile_init[ind.oid] = dict(st.heap[ind.oid])
        ex: list = []
        res = ip.construct("cfdppy.mib.DefaultFaultHandlerBase", [], {}, st, Frame(None, "cfdppy.mib", None), ast.parse("0").body[0], ex)
        if len(res) != 1 or ex:
            raise AnalysisError("cannot construct the default fault handler table abstractly")
        fh, st = res[0]
        st.set_field(fh.oid, "$role", "fault")
        table = st.heap[fh.oid].get("_handler_dict")
        if not isinstance(table, Dct) or not table.items:
            raise AnalysisError("DefaultFaultHandlerBase.__init__ does not build the handler table from a dict literal")
        self.default_table = table
        if self.fault_table == "free":
            fhc = self.prog.lib_enums.get("FaultHandlerCode")
            if not fhc:
                raise AnalysisError("FaultHandlerCode members not found")
            st.set_field(fh.oid, "_handler_dict", FreeDict(tuple(k for k, _ in table.items), tuple(E("FaultHandlerCode", m) for m in fhc), "fh"))
        st.ev = ()
        cfg = st.alloc("cfdppy.mib.LocalEntityCfg", {
            "local_entity_id": Sym(("a", "cfg.local_entity_id")), "indication_cfg": ind, "default_fault_handlers": fh})
        rc = st.alloc("cfdppy.mib.RemoteEntityCfg", {
            **self._lazy_fields("cfdppy.mib.RemoteEntityCfg", "remote_cfg"), "$volatile": True})
        self.volatile_init[rc.oid] = dict(st.heap[rc.oid])
        self.lib.singletons["RemoteEntityCfg"] = rc.oid
        tbl = st.alloc("cfdppy.mib.RemoteEntityCfgTable", {"$role": "remote_cfg_table"})
        ctp = st.alloc("cfdppy.mib.CheckTimerProvider", {"$role": "check_timer_provider"})
        seq = st.alloc("$SeqProvider", {})
        self.env_oids = set(st.heap)
        self.base_nid = st.nid
        args = [cfg, user, tbl, ctp] + ([seq] if self.which == "source" else [])
        res = ip.construct(self.cls, args, {}, st, Frame(None, self.ci.module, None), ast.parse("0").body[0], ex)
        if len(res) != 1 or ex:
            raise AnalysisError(f"constructor of {self.cls} is not deterministic under the abstract environment ({len(res)} results, {len(ex)} exceptions)")
        self.self_ref, st = res[0]
        return self.project(st)

    # ------------------------------------------------------------------ watch
    WATCH = {
        "source": ["states.state", "states.step", "states._num_packets_ready", "_params.cond_code_eof", "_params.transaction_id",
                   "_params.pdu_conf.trans_mode", "_params.closure_requested", "_params.finished_params",
                   "_params.fp.metadata_only", "_params.fp.empty_file", "_params.remote_cfg", "_put_req", "_pdus_to_be_sent",
                   "_params.check_timer", "_params.positive_ack_params.ack_timer", "_params.positive_ack_params.ack_counter",
                   "_params.ack_params.step_before_retransmission"],
        "dest": ["states.state", "states.step", "states._num_packets_ready", "_params.completion_disposition", "_params.transaction_id",
                 "_params.pdu_conf.trans_mode", "_params.closure_requested", "_params.acked_params.metadata_missing",
                 "_params.acked_params.deferred_lost_segment_detection_active", "_params.acked_params.lost_seg_tracker.$n",
                 "_params.fp.metadata_only", "_params.remote_cfg", "_params", "_pdus_to_be_sent",
                 "_params.finished_params.delivery_code", "_params.finished_params.condition_code", "_params.finished_params.file_status",
                 "_params.checksum_type", "_params.fp.file_size_eof", "_params.check_timer", "_params.current_check_count",
                 "_params.acked_params.procedure_timer", "_params.acked_params.nak_activity_counter",
                 "_params.positive_ack_params.ack_timer", "_params.positive_ack_params.ack_counter", "_params.finished_params.fault_location"],
    }

    def read_path(self, st: Store, path: str) -> Any:
        if path.startswith("="):
            return self.read_term(st, path[1:])
        v: Any = self.self_ref
        for part in path.split("."):
            if not isinstance(v, Ref):
                return "<na>"
            obj = st.heap.get(v.oid)
            if obj is None or part not in obj:
                return "<na>"
            v = obj[part]
        if isinstance(v, Ref):
            return ("obj", v.oid)
        if isinstance(v, Lst):
            return tuple(h.pdu.kind if isinstance(h, Holder) and isinstance(h.pdu, Pdu) else "?" for h in v.items)
        if isinstance(v, (Sym, Rec, Tup)):
            return "<nn>" if not (isinstance(v, Sym) and v.t[0] == "lin") else "<int>"
        if isinstance(v, int) and not isinstance(v, bool):
            return v if v == 0 else "<int>"
        return v

    EWATCH = {
        "source": ["states.state", "states.step", "_params.transaction_id", "_params.cond_code_eof", "_params.pdu_conf.trans_mode",
                   "_params.pdu_conf", "_params.positive_ack_params.ack_counter", "_params.closure_requested", "=_params.fp.progress",
                   "_params.ack_params.step_before_retransmission", "_params.fp.metadata_only"],
        "dest": ["states.state", "states.step", "_params.transaction_id", "_params.completion_disposition", "_params.pdu_conf.trans_mode",
                 "_params", "_params.acked_params.metadata_missing", "_params.acked_params.lost_seg_tracker.$n",
                 "_params.acked_params.deferred_lost_segment_detection_active", "_params.finished_params.delivery_code",
                 "=_params.fp.file_name", "_params.pdu_conf", "_params.positive_ack_params.ack_counter",
                 "_params.acked_params.nak_activity_counter", "_params.current_check_count", "_params.checksum_type",
                 "_params.fp.metadata_only", "_params.closure_requested", "_params.fp.file_size_eof"],
    }
    DEFAULT_KEEP = {"FinishedParams.fault_location", "_DestFileParams.file_name", "_SourceFileParams.progress"}

    def watch(self, st: Store) -> tuple:
        if self.self_ref is None:
            return ()
        return tuple(self.read_path(st, p) for p in self.WATCH[self.which])

    def read_term(self, st: Store, path: str) -> Any:
        """raw abstract value at an access path from the handler object"""
        v: Any = self.self_ref
        for part in path.split("."):
            if not isinstance(v, Ref):
                return None
            v = st.heap[v.oid].get(part)
        return v

    def cfg_snapshot(self, st: Store) -> tuple:
        out = []
        for oid, init in self.volatile_init.items():
            obj = st.heap[oid]
            for k, v0 in init.items():
                if isinstance(v0, Lazy) and not isinstance(obj.get(k), Lazy):
                    out.append((v0.tag, obj.get(k)))
        for k, v in st.mon.items():
            if k.startswith("o:"):
                out.append((k[2:], v))
        # the put request of this call / of the running transaction
        pr = st.heap[self.self_ref.oid].get("_put_req") if self.self_ref is not None else None
        if isinstance(pr, Ref) and pr.oid in st.heap:
            obj = st.heap[pr.oid]
            for k in ("trans_mode", "closure_requested", "source_file", "msgs_to_user"):
                v = obj.get(k)
                if not isinstance(v, Lazy):
                    out.append((f"req.{k}", v if (v is None or isinstance(v, (bool, E))) else "<given>"))
        return tuple(sorted(set(out), key=lambda kv: kv[0]))

    def ewatch(self, st: Store) -> tuple:
        """small snapshot attached to every event"""
        if self.self_ref is None:
            return ()
        return tuple(self.read_path(st, p) for p in self.EWATCH[self.which])

    def ew(self, w: tuple, path: str) -> Any:
        return w[self.EWATCH[self.which].index(path)]

    def wget(self, w: tuple, path: str) -> Any:
        return w[self.WATCH[self.which].index(path)]

    # ------------------------------------------------------------------ projection
    EXACT_INT_FIELDS = {"_num_packets_ready"}

    def project(self, st: Store) -> Store:
        heap = st.heap
        out = Store()
        # environment objects keep their ids; volatile ones are re-lazified
        for oid in self.env_oids:
            if oid in self.volatile_init:
                out.heap[oid] = dict(self.volatile_init[oid])
            else:
                out.heap[oid] = dict(heap[oid])
        if self.self_ref is None:
            out.nid = st.nid
            return out
        order: list[int] = []
        seen = set()

        def visit(oid: int) -> None:
            if oid in seen or oid in self.env_oids:
                return
            seen.add(oid)
            order.append(oid)
            obj = heap[oid]
            for k in sorted(obj):
                v = obj[k]
                if isinstance(v, Ref):
                    visit(v.oid)

        visit(self.self_ref.oid)
        ren = {oid: oid for oid in self.env_oids}
        nxt = self.base_nid
        for oid in order:
            ren[oid] = nxt
            nxt += 1
        # the outbound queue is summarised at the boundary: which PDU kinds are waiting (the handlers
        # only test it for emptiness); the ready counter keeps its relation to the queue length
        qlen_old = qlen_new = None
        for oid in order:
            for k, v in heap[oid].items():
                if isinstance(v, Lst) and not v.more and v.items and all(isinstance(x, Holder) for x in v.items):
                    qlen_old, qlen_new = len(v.items), 1
        for oid in order:
            obj = heap[oid]
            cls = obj["$cls"].split(".")[-1]
            new: dict[str, Any] = {}
            relazy = self._req_lazy if cls == "PutRequest" else {}
            for k, v in obj.items():
                if k in relazy and k not in ("source_file", "dest_file"):
                    new[k] = relazy[k]
                elif k in self.EXACT_INT_FIELDS and qlen_old is not None and isinstance(v, int):
                    new[k] = qlen_new if v >= qlen_old else min(v, qlen_new)
                else:
                    new[k] = self._proj_value(v, cls, k, ren)
            out.heap[ren[oid]] = new
        out.nid = nxt
        return out

    def _proj_value(self, v: Any, cls: str, k: str, ren: dict[int, int]) -> Any:
        if k.startswith("$"):
            if k == "$epoch":
                return 0
            if k == "$interval":
                return None
            if k == "$fresh":
                return False
            return v
        if isinstance(v, E) and v.cls == "ConditionCode" and v.name not in ("NO_ERROR", "$OTHER") and v.name not in self.prog.compared_members("ConditionCode"):
            return E("ConditionCode", "$OTHER")
        if v is None or isinstance(v, (bool, E, Lazy, Dct, FreeDict)):
            return v
        if isinstance(v, (str, bytes)):
            return Sym(("a", f"${cls}.{k}"))
        if isinstance(v, Ref):
            if v.oid not in ren:
                return Sym(("a", f"${cls}.{k}"))
            return Ref(ren[v.oid])
        if isinstance(v, int) and not isinstance(v, bool):
            if k in self.EXACT_INT_FIELDS or (v == 0 and f"{cls}.{k}" in self.ip.zero_fields):
                return v
            return Sym(("a", f"${cls}.{k}"))
        if isinstance(v, Lst):
            if all(isinstance(h, Holder) for h in v.items) and not v.more:
                return Lst((Holder(Pdu("ANY", (), "")),) if v.items else (), False)
            return Sym(("a", f"${cls}.{k}"))
        return Sym(("a", f"${cls}.{k}"))

    # ------------------------------------------------------------------ public API inputs
    def api_inputs(self, tier: str = "quick") -> list[tuple]:
        labels: list[tuple] = []
        if self.which == "source":
            labels += [("put_request", "file"), ("put_request", "metadata_only")]
        labels += [("state_machine", None)]
        labels += [("state_machine", k) for k in ALL_KINDS]
        labels += [("cancel_request",), ("drain",), ("props",)]
        if tier == "thorough":
            labels += [("get_next_packet",)]
        return labels

    def public_properties(self) -> list[str]:
        return [m.name for m in self.ci.methods.values() if m.is_property and not m.name.startswith("_")]

    def run(self, node: Store, label: tuple) -> tuple[list[tuple[Any, Store]], list[tuple[ExcInfo, Store]]]:
        ip = self.ip
        st = node.fork()
        ex: list = []
        api = label[0]
        me = self.self_ref

        def method(name: str):
            m = self.prog.find_method(self.cls, name)
            if m is None:
                raise AnalysisError(f"public method {self.cls}.{name} not found")
            return m

        if api == "put_request":
            shape = label[1]
            over: dict[str, Any] = {}
            if shape == "file":
                over = {"source_file": Sym(("a", "req.source_file")), "dest_file": Sym(("a", "req.dest_file"))}
            else:
                over = {"source_file": None, "dest_file": None}
            if "cfdppy.request.PutRequest" not in self.prog.classes:
                raise AnalysisError("PutRequest class not found")
            over.update(self._req_over)
            req = st.alloc("cfdppy.request.PutRequest", self._lazy_fields("cfdppy.request.PutRequest", "req", over))
            return ip.call_repo(method("put_request"), me, [req], {}, st, ex, "<api>"), ex
        if api == "state_machine":
            kind = label[1]
            pkt = None if kind is None else self.lib.new_packet(st, kind)
            return ip.call_repo(method("state_machine"), me, [pkt], {}, st, ex, "<api>"), ex
        if api == "cancel_request":
            return ip.call_repo(method("cancel_request"), me, [Sym(("a", "arg.transaction_id"))], {}, st, ex, "<api>"), ex
        if api == "reset":
            return ip.call_repo(method("reset"), me, [], {}, st, ex, "<api>"), ex
        if api == "get_next_packet":
            return ip.call_repo(method("get_next_packet"), me, [], {}, st, ex, "<api>"), ex
        if api == "drain":
            cur = [st]
            done: list[tuple[Any, Store]] = []
            gnp = method("get_next_packet")
            for _ in range(40):
                nx = []
                for s in cur:
                    for r, s2 in ip.call_repo(gnp, me, [], {}, s, ex, "<api>"):
                        if r is None:
                            done.append((None, s2))
                        else:
                            nx.append(s2)
                cur = dedup(nx)
                if not cur:
                    break
            else:
                raise AnalysisError("get_next_packet does not drain the queue within 40 calls")
            return done, ex
        if api == "props":
            outs = [(None, st)]
            for p in self.public_properties():
                nx = []
                for _, s in outs:
                    for _r, s2 in ip.call_repo(method(p), me, [], {}, s, ex, "<api>"):
                        nx.append((None, s2))
                outs = nx[:1] if nx else outs
            return outs, ex
        raise AnalysisError(f"unknown api {api}")


_W: dict[str, Any] = {}


def _w_init(which: str, fault_table: str, k_iter: int, k_while: int, indications: str, keep_terms: tuple, tier: str, with_reset: bool,
            follow_undrained: bool = False) -> None:
    _W["follow_undrained"] = follow_undrained
    prog = Program()
    h = Harness(prog, which, fault_table, k_iter, k_while, indications, set(keep_terms))
    _W["h"] = h
    _W["labels"] = h.api_inputs(tier) + ([("reset",)] if with_reset else [])


PROBE_APIS = ("drain", "get_next_packet", "cancel_request", "props", "put_request", "reset")


def labels_for(h: "Harness", pre: tuple, labels: list[tuple], follow_undrained: bool) -> list[tuple]:
    """A busy handler whose queued PDUs were not retrieved is probed with the packet-less calls only
    (every packet insertion is refused the same way); an idle one may legitimately start anew."""
    if follow_undrained:
        return labels
    undrained = bool(h.wget(pre, "_pdus_to_be_sent"))
    if not undrained or repr(h.wget(pre, "states.state")).endswith("IDLE"):
        return labels
    return [l for l in labels if l[0] in PROBE_APIS or l == ("state_machine", None)]


def _w_expand(node: Store) -> tuple:
    h: Harness = _W["h"]
    ip = h.ip
    ip.assumptions, ip.notes, ip.unresolved_calls, ip.env_uncaught = {}, {}, {}, {}
    ip.funcs_entered = set()
    c0 = (ip.stmt_count, ip.calls_total, ip.calls_repo, ip.calls_lib)
    pre = h.watch(node)
    out = []
    uniq: dict = {}
    stores: list[Store] = []

    def idx_of(s: Store) -> int:
        p = h.project(s)
        k = p.key()
        i = uniq.get(k)
        if i is None:
            i = uniq[k] = len(stores)
            stores.append(p)
        return i

    for label in labels_for(h, pre, _W["labels"], _W["follow_undrained"]):
        rets, excs = h.run(node, label)
        for r, s in rets:
            out.append((label, idx_of(s), None, _ret(r), s.ev, tuple(s.ch.items()), h.watch(s), h.cfg_snapshot(s)))
        for ei, s in excs:
            if ei.cls in h.protocol_exceptions and ei.origin == "explicit":
                pi = idx_of(s)
            else:
                pi = None
            out.append((label, pi, ei, None, s.ev, tuple(s.ch.items()), h.watch(s), h.cfg_snapshot(s)))
    for p in stores:
        p._key = None
    out = (stores, out)
    stats = (ip.assumptions, ip.notes, ip.unresolved_calls, ip.env_uncaught, ip.funcs_entered,
             (ip.stmt_count - c0[0], ip.calls_total - c0[1], ip.calls_repo - c0[2], ip.calls_lib - c0[3]))
    return pre, out, stats


class ATS:
    def __init__(self, harness: Harness, tier: str = "quick", with_reset: bool = False, max_nodes: int = 20000,
                 follow_undrained: bool = False, progress: bool = False, jobs: int = 1) -> None:
        self.follow_undrained = follow_undrained
        self.progress = progress
        self.expanded: set[int] = set()
        self.jobs = jobs
        self.stats: dict[str, Any] = {"assumptions": {}, "notes": {}, "unresolved_calls": {}, "env_uncaught": {},
                                      "funcs_entered": set(), "stmts": 0, "calls_total": 0, "calls_repo": 0, "calls_lib": 0}
        self.h = harness
        self.nodes: list[Store] = []
        self.index: dict[tuple, int] = {}
        self.edges: list[Edge] = []
        self.out: dict[int, list[int]] = {}
        self.tier = tier
        self.with_reset = with_reset
        self.max_nodes = max_nodes
        self.wall = 0.0
        self.explore()

    def node_id(self, st: Store) -> tuple[int, bool]:
        k = st.key()
        if k in self.index:
            return self.index[k], False
        self.index[k] = len(self.nodes)
        self.nodes.append(st)
        return len(self.nodes) - 1, True

    def _merge_stats(self, st: tuple) -> None:
        for name, d in zip(("assumptions", "notes", "unresolved_calls", "env_uncaught"), st[:4]):
            tgt = self.stats[name]
            for k, v in d.items():
                tgt[k] = tgt.get(k, 0) + v
        self.stats["funcs_entered"] |= st[4]
        for name, v in zip(("stmts", "calls_total", "calls_repo", "calls_lib"), st[5]):
            self.stats[name] += v

    def explore_parallel(self) -> None:
        import multiprocessing as mp
        t0 = time.time()
        h = self.h
        n0, _ = self.node_id(h.node0)
        frontier = [n0]
        ctx = mp.get_context("fork")
        with ctx.Pool(self.jobs, initializer=_w_init, initargs=(
                h.which, h.fault_table, h.ip.k_iter, h.ip.k_while, h.indications, tuple(sorted(h.ip.keep_terms or ())),
                self.tier, self.with_reset, self.follow_undrained)) as pool:
            while frontier:
                todo = []
                for n in frontier:
                    if n not in self.expanded:
                        self.expanded.add(n)
                        todo.append(n)
                for n in todo:
                    self.nodes[n]._key = None
                results = pool.map(_w_expand, [self.nodes[n] for n in todo], chunksize=1)
                frontier = []
                for nid, (pre, out, stats) in zip(todo, results):
                    self._merge_stats(stats)
                    undrained = bool(h.wget(pre, "_pdus_to_be_sent"))
                    stores, out = out
                    ids = [self.node_id(p)[0] for p in stores]
                    for label, pi, ei, r, ev, ch, post, cfgs in out:
                        follow = self.follow_undrained or not undrained or label[0] in ("drain", "get_next_packet")
                        did = None
                        if pi is not None:
                            did = ids[pi]
                            if follow and did not in self.expanded:
                                frontier.append(did)
                        self._add(Edge(nid, label, did, ei, r, ev, ch, post, pre, cfgs))
                if self.progress:
                    print(f"  [ats {h.which}] expanded {len(self.expanded)} nodes, {len(self.nodes)} known, {len(self.edges)} edges, {time.time() - t0:.0f}s", flush=True)
                if len(self.nodes) > self.max_nodes:
                    raise AnalysisError(f"ATS of the {h.which} handler exceeds {self.max_nodes} nodes")
        self.wall = time.time() - t0

    def explore(self) -> None:
        if self.jobs > 1:
            self.explore_parallel()
            return
        t0 = time.time()
        h = self.h
        n0, _ = self.node_id(h.node0)
        work = [n0]
        labels = h.api_inputs(self.tier) + ([("reset",)] if self.with_reset else [])
        while work:
            nid = work.pop()
            if nid in self.expanded:
                continue
            self.expanded.add(nid)
            node = self.nodes[nid]
            pre = h.watch(node)
            undrained = bool(h.wget(pre, "_pdus_to_be_sent"))
            if self.progress and len(self.expanded) % 100 == 0:
                print(f"  [ats {h.which}] expanded {len(self.expanded)} nodes, {len(self.nodes)} known, {len(self.edges)} edges", flush=True)
            for label in labels_for(h, pre, labels, self.follow_undrained):
                rets, excs = h.run(node, label)
                # a user that does not retrieve the queued PDUs is probed one call deep only
                follow = self.follow_undrained or not undrained or label[0] in ("drain", "get_next_packet")
                for r, s in rets:
                    post = h.watch(s)
                    p = h.project(s)
                    did, new = self.node_id(p)
                    if follow and did not in self.expanded:
                        work.append(did)
                    self._add(Edge(nid, label, did, None, _ret(r), s.ev, tuple(s.ch.items()), post, pre, h.cfg_snapshot(s)))
                for ei, s in excs:
                    post = h.watch(s)
                    if ei.cls in h.protocol_exceptions and ei.origin == "explicit":
                        p = h.project(s)
                        did, new = self.node_id(p)
                        if follow and did not in self.expanded:
                            work.append(did)
                        self._add(Edge(nid, label, did, ei, None, s.ev, tuple(s.ch.items()), post, pre, h.cfg_snapshot(s)))
                    else:
                        self._add(Edge(nid, label, None, ei, None, s.ev, tuple(s.ch.items()), post, pre, h.cfg_snapshot(s)))
                if len(self.nodes) > self.max_nodes:
                    raise AnalysisError(f"ATS of the {h.which} handler exceeds {self.max_nodes} nodes")
        self.wall = time.time() - t0
        ip = h.ip
        self._merge_stats((ip.assumptions, ip.notes, ip.unresolved_calls, ip.env_uncaught, ip.funcs_entered,
                           (ip.stmt_count, ip.calls_total, ip.calls_repo, ip.calls_lib)))

    def _intern(self, x: Any) -> Any:
        t = self.__dict__.setdefault("_interned", {})
        return t.setdefault(x, x)

    def _add(self, e: Edge) -> None:
        e = e._replace(ev=self._intern(tuple(self._intern(x) for x in e.ev)), ch=self._intern(e.ch), cfg=self._intern(e.cfg),
                       pre=self._intern(e.pre), post=self._intern(e.post), label=self._intern(e.label))
        self.out.setdefault(e.src, []).append(len(self.edges))
        self.edges.append(e)

    # ------------------------------------------------------------------ queries
    def describe(self, nid: int) -> dict[str, Any]:
        w = self.h.watch(self.nodes[nid])
        return {p: _show(v) for p, v in zip(self.h.WATCH[self.h.which], w)}

    def can_reach(self, targets: set[int], edge_filter=None) -> set[int]:
        """nodes from which some node in `targets` is reachable (backward closure)"""
        pred: dict[int, set[int]] = {}
        for e in self.edges:
            if e.dst is None:
                continue
            if edge_filter is not None and not edge_filter(e):
                continue
            pred.setdefault(e.dst, set()).add(e.src)
        seen = set(targets)
        work = list(targets)
        while work:
            n = work.pop()
            for p in pred.get(n, ()):
                if p not in seen:
                    seen.add(p)
                    work.append(p)
        return seen

    def path_to(self, nid: int) -> list[Edge]:
        """a shortest edge path from node 0 to nid (witness prefix)"""
        prev: dict[int, Edge | None] = {0: None}
        work = [0]
        while work:
            nxt = []
            for n in work:
                for ei in self.out.get(n, ()):
                    e = self.edges[ei]
                    if e.dst is not None and e.dst not in prev:
                        prev[e.dst] = e
                        nxt.append(e.dst)
            work = nxt
        path: list[Edge] = []
        cur = nid
        while cur in prev and prev[cur] is not None:
            e = prev[cur]
            path.append(e)
            cur = e.src
        return list(reversed(path))


def _ret(r: Any) -> Any:
    if isinstance(r, Ref):
        return "obj"
    return r


def _show(v: Any) -> Any:
    if isinstance(v, E):
        return v.name
    if isinstance(v, tuple):
        return [_show(x) for x in v]
    if v is None or isinstance(v, (bool, int, str)):
        return v
    return repr(v)


def show_label(label: tuple) -> str:
    return label[0] + ("(" + ", ".join(str(x) for x in label[1:]) + ")" if len(label) > 1 else "()")


def show_choices(ch: tuple, limit: int = 40) -> list[str]:
    out = []
    for k, v in ch[:limit]:
        out.append(f"{_short_key(k)} = {_show(v)}")
    return out


def _short_key(k: Any) -> str:
    s = repr(k)
    return s if len(s) < 160 else s[:157] + "..."

"""L0/L1 helpers over the syntax tree: a light type resolver (annotations + constructor calls), call
resolution, call graph, guards.  Used by the structural rules; no code is executed."""
from __future__ import annotations

import ast
import copy
from typing import Any, Iterator

from .model import AnalysisError, ClassInfo, FuncInfo, Program, loc, norm


def strip_optional(ann: str) -> str:
    ann = ann.strip().strip("'\"")
    parts = [p.strip() for p in ann.split("|")]
    parts = [p for p in parts if p != "None"]
    if len(parts) == 1:
        ann = parts[0]
    if ann.startswith("Optional[") and ann.endswith("]"):
        ann = ann[9:-1]
    return ann


class TypeEnv:
    def __init__(self, prog: Program) -> None:
        self.prog = prog
        self.attr_types: dict[str, dict[str, str]] = {}
        for ci in prog.classes.values():
            self.attr_types[ci.qualname] = self._class_attrs(ci)

    def qualify(self, name: str, module: str) -> str:
        """simple or dotted type name -> repo qualified class name if resolvable, else the name"""
        name = strip_optional(name)
        head = name.split("[")[0]
        mi = self.prog.modules.get(module)
        if mi is not None:
            if head in mi.classes:
                return mi.classes[head].qualname
            if head in mi.imports:
                q = mi.imports[head]
                return q
        return head

    def _class_attrs(self, ci: ClassInfo) -> dict[str, str]:
        out: dict[str, str] = {}
        for base in reversed(self.prog.mro(ci.qualname)):
            for k, (ann, _d) in base.fields.items():
                if ann is not None:
                    out[k] = self.qualify(ast.unparse(ann), base.module)
            init = base.methods.get("__init__")
            if init is None:
                continue
            ptypes = {a.arg: self.qualify(ast.unparse(a.annotation), base.module) for a in init.node.args.args if a.annotation is not None}
            for st in ast.walk(init.node):
                tgt = val = ann = None
                if isinstance(st, ast.AnnAssign):
                    tgt, val, ann = st.target, st.value, st.annotation
                elif isinstance(st, ast.Assign) and len(st.targets) == 1:
                    tgt, val = st.targets[0], st.value
                if not (isinstance(tgt, ast.Attribute) and isinstance(tgt.value, ast.Name) and tgt.value.id == "self"):
                    continue
                if ann is not None:
                    out[tgt.attr] = self.qualify(ast.unparse(ann), base.module)
                elif isinstance(val, ast.Call):
                    f = ast.unparse(val.func)
                    cand = self.qualify(f.split(".")[0], base.module)
                    if "." in f and f.split(".")[-1] in ("empty", "from_seconds"):
                        out[tgt.attr] = cand
                    else:
                        out[tgt.attr] = self.qualify(f, base.module)
                elif isinstance(val, ast.Name) and val.id in ptypes:
                    out[tgt.attr] = ptypes[val.id]
        return out

    def expr_type(self, e: ast.expr, fi: FuncInfo, local_types: dict[str, str] | None = None) -> str | None:
        lt = local_types or {}
        if isinstance(e, ast.Name):
            if e.id == "self" and fi.cls:
                return fi.cls
            if e.id in lt:
                return lt[e.id]
            for a in fi.node.args.args + fi.node.args.kwonlyargs:
                if a.arg == e.id and a.annotation is not None:
                    return self.qualify(ast.unparse(a.annotation), fi.module)
            mi = self.prog.modules[fi.module]
            if e.id in mi.classes:
                return "type:" + mi.classes[e.id].qualname
            if e.id in mi.imports:
                return "type:" + mi.imports[e.id]
            return None
        if isinstance(e, ast.Attribute):
            bt = self.expr_type(e.value, fi, lt)
            if bt is None:
                return None
            if bt.startswith("type:"):
                return None
            if bt in self.prog.classes:
                at = self.attr_types.get(bt, {})
                if e.attr in at:
                    return at[e.attr]
                m = self.prog.find_method(bt, e.attr)
                if m is not None and m.is_property and m.node.returns is not None:
                    return self.qualify(ast.unparse(m.node.returns), m.module)
                if m is not None:
                    return "method:" + m.qualname
            return None
        if isinstance(e, ast.Call):
            ft = self.expr_type(e.func, fi, lt)
            if ft is None:
                return None
            if ft.startswith("type:"):
                return ft[5:]
            if ft.startswith("method:"):
                m = self.prog.functions.get(ft[7:])
                if m is not None and m.node.returns is not None:
                    return self.qualify(ast.unparse(m.node.returns), m.module)
            return None
        return None

    def local_types(self, fi: FuncInfo) -> dict[str, str]:
        """types of locals assigned once from a typed expression (flow-insensitive)"""
        lt: dict[str, str] = {}
        for _ in range(2):
            for st in ast.walk(fi.node):
                if isinstance(st, ast.Assign) and len(st.targets) == 1 and isinstance(st.targets[0], ast.Name):
                    t = self.expr_type(st.value, fi, lt)
                    if t is not None:
                        lt[st.targets[0].id] = t
                elif isinstance(st, ast.AnnAssign) and isinstance(st.target, ast.Name):
                    lt[st.target.id] = self.qualify(ast.unparse(st.annotation), fi.module)
                elif isinstance(st, ast.With):
                    for it in st.items:
                        if isinstance(it.optional_vars, ast.Name) and isinstance(it.context_expr, ast.Call) and ast.unparse(it.context_expr.func) == "open":
                            lt[it.optional_vars.id] = "io.File"
        return lt


class CallInfo:
    __slots__ = ("node", "fi", "kind", "target", "recv_type", "name")

    def __init__(self, node: ast.Call, fi: FuncInfo, kind: str, target: str | None, recv_type: str | None, name: str) -> None:
        self.node, self.fi, self.kind, self.target, self.recv_type, self.name = node, fi, kind, target, recv_type, name


class CallGraph:
    """resolved calls of every repo function; repo->repo edges; reachability"""

    def __init__(self, prog: Program, tenv: TypeEnv | None = None) -> None:
        self.prog = prog
        self.tenv = tenv or TypeEnv(prog)
        self.calls: dict[str, list[CallInfo]] = {}
        self.edges: dict[str, set[str]] = {}
        self.total = 0
        self.resolved = 0
        for fi in list(prog.functions.values()):
            self._scan(fi)

    def _scan(self, fi: FuncInfo) -> None:
        key = fi.qualname + (".setter" if fi.is_setter else "")
        if key in self.calls:
            return
        lt = self.tenv.local_types(fi)
        out: list[CallInfo] = []
        edges: set[str] = set()
        mi = self.prog.modules[fi.module]
        for n in ast.walk(fi.node):
            # property reads are calls too
            if isinstance(n, ast.Attribute) and isinstance(n.ctx, ast.Load):
                bt = self.tenv.expr_type(n.value, fi, lt)
                if bt in self.prog.classes:
                    m = self.prog.find_method(bt, n.attr)
                    if m is not None and m.is_property:
                        edges.add(m.qualname)
            if not isinstance(n, ast.Call):
                continue
            self.total += 1
            f = n.func
            if isinstance(f, ast.Name):
                if f.id in mi.functions:
                    out.append(CallInfo(n, fi, "repo", mi.functions[f.id].qualname, None, f.id))
                    edges.add(mi.functions[f.id].qualname)
                    self.resolved += 1
                elif f.id in mi.classes:
                    q = mi.classes[f.id].qualname
                    out.append(CallInfo(n, fi, "repo-class", q, None, f.id))
                    init = self.prog.find_method(q, "__init__")
                    if init:
                        edges.add(init.qualname)
                    self.resolved += 1
                elif f.id in mi.imports:
                    q = mi.imports[f.id]
                    if q in self.prog.functions:
                        out.append(CallInfo(n, fi, "repo", q, None, f.id))
                        edges.add(q)
                    elif q in self.prog.classes:
                        out.append(CallInfo(n, fi, "repo-class", q, None, f.id))
                        init = self.prog.find_method(q, "__init__")
                        if init:
                            edges.add(init.qualname)
                    else:
                        out.append(CallInfo(n, fi, "lib", q, None, f.id))
                    self.resolved += 1
                else:
                    out.append(CallInfo(n, fi, "builtin", f.id, None, f.id))
                    self.resolved += 1
            elif isinstance(f, ast.Attribute):
                rt = self.tenv.expr_type(f.value, fi, lt)
                if rt is not None and rt.startswith("type:"):
                    q = rt[5:]
                    if q in self.prog.classes:
                        m = self.prog.find_method(q, f.attr)
                        if m is not None:
                            out.append(CallInfo(n, fi, "repo", m.qualname, q, f.attr))
                            edges.add(m.qualname)
                            self.resolved += 1
                            continue
                    out.append(CallInfo(n, fi, "lib", f"{q}.{f.attr}", q, f.attr))
                    self.resolved += 1
                elif rt in self.prog.classes:
                    m = self.prog.find_method(rt, f.attr)
                    if m is not None:
                        out.append(CallInfo(n, fi, "repo", m.qualname, rt, f.attr))
                        edges.add(m.qualname)
                        # dynamic dispatch: subclasses overriding the method are possible targets too
                        for ci in self.prog.classes.values():
                            if ci.qualname != rt and any(c.qualname == rt for c in self.prog.mro(ci.qualname)) and f.attr in ci.methods:
                                edges.add(ci.methods[f.attr].qualname)
                        self.resolved += 1
                    else:
                        out.append(CallInfo(n, fi, "repo-unknown-method", None, rt, f.attr))
                elif rt is not None:
                    out.append(CallInfo(n, fi, "lib", f"{rt}.{f.attr}", rt, f.attr))
                    self.resolved += 1
                else:
                    head = f.value
                    while isinstance(head, ast.Attribute):
                        head = head.value
                    if isinstance(head, ast.Name) and head.id in mi.imports and mi.imports[head.id] == head.id:
                        out.append(CallInfo(n, fi, "lib", ast.unparse(f), None, f.attr))  # module.function
                        self.resolved += 1
                    elif isinstance(f.value, ast.Call) and ast.unparse(f.value.func) == "super":
                        tgt = None
                        for ci in self.prog.mro(fi.cls or "")[1:]:
                            if f.attr in ci.methods:
                                tgt = ci.methods[f.attr].qualname
                                break
                        out.append(CallInfo(n, fi, "repo" if tgt else "unresolved", tgt, None, f.attr))
                        if tgt:
                            edges.add(tgt)
                            self.resolved += 1
                    else:
                        out.append(CallInfo(n, fi, "unresolved", None, None, f.attr))
            else:
                out.append(CallInfo(n, fi, "unresolved", None, None, "?"))
        self.calls[key] = out
        self.edges[key] = edges

    def reachable(self, roots: list[str]) -> set[str]:
        seen = set()
        work = list(roots)
        while work:
            q = work.pop()
            if q in seen:
                continue
            seen.add(q)
            for t in self.edges.get(q, ()):
                if t not in seen:
                    work.append(t)
        return seen


def public_api(prog: Program, cls_q: str) -> list[str]:
    ci = prog.classes.get(cls_q)
    if ci is None:
        raise AnalysisError(f"class {cls_q} not found")
    out = []
    for m in ci.methods.values():
        if not m.name.startswith("_") or m.name == "__init__":
            out.append(m.qualname)
    for m in ci.setters.values():
        out.append(m.qualname + ".setter")
    return out


def parent_map(root: ast.AST) -> dict[ast.AST, ast.AST]:
    pm: dict[ast.AST, ast.AST] = {}
    for p in ast.walk(root):
        for c in ast.iter_child_nodes(p):
            pm[c] = p
    return pm


def enclosing_stmt(pm: dict[ast.AST, ast.AST], n: ast.AST) -> ast.stmt:
    cur = n
    while not isinstance(cur, ast.stmt):
        cur = pm[cur]
    return cur


def guards_of(fn: ast.FunctionDef, target: ast.AST) -> list[tuple[ast.expr, bool]]:
    """conditions (with polarity) that dominate `target` inside fn: enclosing if/while tests and the
    negation of earlier early-exit guards in enclosing blocks"""
    pm = parent_map(fn)
    out: list[tuple[ast.expr, bool]] = []
    cur: ast.AST = target
    while cur is not fn:
        par = pm[cur]
        # position in parent's blocks
        for fld in ("body", "orelse", "finalbody", "handlers"):
            blk = getattr(par, fld, None)
            if isinstance(blk, list) and cur in blk:
                if isinstance(par, (ast.If, ast.While)) and fld in ("body", "orelse"):
                    out.append((par.test, fld == "body"))
                idx = blk.index(cur)
                for prev in blk[:idx]:
                    if isinstance(prev, ast.If) and _always_exits(prev.body) and not prev.orelse:
                        out.append((prev.test, False))
                    if isinstance(prev, ast.Assert):
                        out.append((prev.test, True))
        if isinstance(par, ast.IfExp):
            if cur is par.body:
                out.append((par.test, True))
            elif cur is par.orelse:
                out.append((par.test, False))
        if isinstance(par, ast.BoolOp):
            i = par.values.index(cur) if cur in par.values else -1
            for prev in par.values[:max(i, 0)]:
                out.append((prev, isinstance(par.op, ast.And)))
        cur = par
    return out


def _always_exits(body: list[ast.stmt]) -> bool:
    if not body:
        return False
    last = body[-1]
    return isinstance(last, (ast.Return, ast.Raise, ast.Continue, ast.Break))


def names_in(e: ast.AST) -> set[str]:
    return {n.id for n in ast.walk(e) if isinstance(n, ast.Name)}


def attr_chain(e: ast.AST) -> str | None:
    parts = []
    while isinstance(e, ast.Attribute):
        parts.append(e.attr)
        e = e.value
    if isinstance(e, ast.Name):
        parts.append(e.id)
        return ".".join(reversed(parts))
    return None


def iter_funcs(prog: Program, modules: list[str] | None = None) -> Iterator[FuncInfo]:
    seen = set()
    for k, fi in prog.functions.items():
        if modules is not None and fi.module not in modules:
            continue
        if id(fi) in seen:
            continue
        seen.add(id(fi))
        yield fi


MUTATING_METHODS = {"append", "appendleft", "extend", "insert", "pop", "popleft", "remove", "clear", "update", "setdefault", "add", "discard",
                    "popitem", "sort", "reverse"}


def mutation_after_escape(fn: ast.FunctionDef, escapes) -> list[tuple[ast.AST, str, ast.AST]]:
    """Flow-sensitive walk of one function: a local name handed to a call selected by `escapes(call)` (e.g. a PDU
    constructor, which keeps the object by reference) is 'escaped' until the name is rebound; a mutation of an escaped
    name (mutating method, subscript store/delete, augmented assignment) changes the object the receiver holds.
    Loop bodies are walked twice (back edge). Returns (mutating node, name, the call it escaped into)."""
    found: list[tuple[ast.AST, str, ast.AST]] = []
    seen: set[int] = set()

    def names_in_call(c: ast.Call) -> list[str]:
        out = []
        for a in list(c.args) + [k.value for k in c.keywords]:
            if isinstance(a, ast.Name):
                out.append(a.id)
        return out

    def scan_expr(e: ast.AST, esc: dict[str, ast.AST]) -> None:
        for n in ast.walk(e):
            if isinstance(n, ast.Call):
                if isinstance(n.func, ast.Attribute) and isinstance(n.func.value, ast.Name) and n.func.value.id in esc and n.func.attr in MUTATING_METHODS:
                    if id(n) not in seen:
                        seen.add(id(n))
                        found.append((n, n.func.value.id, esc[n.func.value.id]))
        for n in ast.walk(e):
            if isinstance(n, ast.Call) and escapes(n):
                for nm in names_in_call(n):
                    esc[nm] = n

    def run(stmts: list[ast.stmt], esc: dict[str, ast.AST]) -> dict[str, ast.AST]:
        for s in stmts:
            if isinstance(s, (ast.Assign, ast.AnnAssign)):
                if s.value is not None:
                    scan_expr(s.value, esc)
                tgts = s.targets if isinstance(s, ast.Assign) else [s.target]
                for t in tgts:
                    if isinstance(t, ast.Name):
                        esc.pop(t.id, None)  # rebound: a new object
                    elif isinstance(t, ast.Subscript) and isinstance(t.value, ast.Name) and t.value.id in esc and id(s) not in seen:
                        seen.add(id(s))
                        found.append((s, t.value.id, esc[t.value.id]))
            elif isinstance(s, ast.AugAssign):
                scan_expr(s.value, esc)
                t = s.target
                base = t.value if isinstance(t, ast.Subscript) else t
                if isinstance(base, ast.Name) and base.id in esc and id(s) not in seen:
                    seen.add(id(s))
                    found.append((s, base.id, esc[base.id]))
            elif isinstance(s, ast.Delete):
                for t in s.targets:
                    if isinstance(t, ast.Subscript) and isinstance(t.value, ast.Name) and t.value.id in esc and id(s) not in seen:
                        seen.add(id(s))
                        found.append((s, t.value.id, esc[t.value.id]))
                    elif isinstance(t, ast.Name):
                        esc.pop(t.id, None)
            elif isinstance(s, ast.If):
                scan_expr(s.test, esc)
                a = run(s.body, dict(esc))
                b = run(s.orelse, dict(esc))
                esc = {**a, **b}
            elif isinstance(s, (ast.For, ast.While)):
                scan_expr(s.iter if isinstance(s, ast.For) else s.test, esc)
                for _ in range(2):
                    esc = {**esc, **run(s.body, dict(esc))}
                esc = {**esc, **run(s.orelse, dict(esc))}
            elif isinstance(s, ast.With):
                for it in s.items:
                    scan_expr(it.context_expr, esc)
                esc = run(s.body, esc)
            elif isinstance(s, ast.Try):
                esc = run(s.body, esc)
                for hnd in s.handlers:
                    esc = {**esc, **run(hnd.body, dict(esc))}
                esc = run(s.orelse, esc)
                esc = run(s.finalbody, esc)
            elif isinstance(s, (ast.FunctionDef, ast.AsyncFunctionDef, ast.ClassDef)):
                continue
            else:
                for ch in ast.iter_child_nodes(s):
                    scan_expr(ch, esc)
        return esc

    run(fn.body, {})
    return found


# ---------------------------------------------------------------------------------------------------------------------
# syntax-tree normalisation used by the idiom rules: the two commonest behaviour-preserving reshapings - "extract method"
# and "local alias for an attribute chain" - are undone before a shape is matched.

class _Subst(ast.NodeTransformer):
    def __init__(self, mapping: dict[str, ast.expr]) -> None:
        self.mapping = mapping

    def visit_Name(self, n: ast.Name) -> ast.AST:
        if isinstance(n.ctx, ast.Load) and n.id in self.mapping:
            return copy.deepcopy(self.mapping[n.id])
        return n


def _simple_arg(e: ast.expr) -> bool:
    return isinstance(e, (ast.Name, ast.Constant, ast.Attribute, ast.Subscript, ast.Tuple, ast.BinOp, ast.Call)) and len(ast.unparse(e)) < 120


def inline_private_helpers(prog: Any, fi: Any, depth: int = 2) -> ast.FunctionDef:
    """returns a copy of fi's function in which calls `self._h(args)` of private helpers of the same class are replaced by
    the helper's body (statement calls, `x = self._h(..)`, `return self._h(..)`) or by its returned expression (helpers
    consisting of one `return`), parameters substituted by the argument expressions. Only for matching shapes."""
    fn = copy.deepcopy(fi.node)
    cls = fi.cls
    if not cls:
        return fn

    def callee_of(c: ast.AST):
        if isinstance(c, ast.Call) and isinstance(c.func, ast.Attribute) and isinstance(c.func.value, ast.Name) and c.func.value.id == "self" and c.func.attr.startswith("_"):
            g = prog.functions.get(f"{cls}.{c.func.attr}")
            if g is not None and g is not fi and not g.is_setter:
                return g
        return None

    def bind(g, c: ast.Call) -> dict[str, ast.expr] | None:
        params = [p for p in g.params if p != "self"]
        m: dict[str, ast.expr] = {}
        for i, a in enumerate(c.args):
            if i >= len(params) or not _simple_arg(a):
                return None
            m[params[i]] = a
        for k in c.keywords:
            if k.arg is None or not _simple_arg(k.value):
                return None
            m[k.arg] = k.value
        defaults = g.node.args.defaults
        for p, d in zip(params[len(params) - len(defaults):], defaults):
            m.setdefault(p, d)
        if any(p not in m for p in params):
            return None
        return m

    def body_of(g, m) -> list[ast.stmt]:
        b = [s for s in copy.deepcopy(g.node.body) if not (isinstance(s, ast.Expr) and isinstance(s.value, ast.Constant))]
        return [_Subst(m).visit(s) for s in b]

    def expand(stmts: list[ast.stmt], d: int) -> list[ast.stmt]:
        out: list[ast.stmt] = []
        for s in stmts:
            for fld in ("body", "orelse", "finalbody"):
                blk = getattr(s, fld, None)
                if isinstance(blk, list) and blk and isinstance(blk[0], ast.stmt):
                    setattr(s, fld, expand(blk, d))
            if isinstance(s, ast.Try):
                for hnd in s.handlers:
                    hnd.body = expand(hnd.body, d)
            call = None
            if isinstance(s, ast.Expr):
                call = s.value
            elif isinstance(s, (ast.Assign, ast.Return)) and s.value is not None:
                call = s.value
            g = callee_of(call) if d > 0 and call is not None else None
            if g is not None:
                m = bind(g, call)
                b = body_of(g, m) if m is not None else None
                rets = [n for n in ast.walk(ast.Module(body=b or [], type_ignores=[])) if isinstance(n, ast.Return)]
                if b is not None and isinstance(s, ast.Expr) and (not rets or (len(rets) == 1 and b and b[-1] is rets[0])):
                    if rets:
                        b = b[:-1] + ([ast.Expr(value=rets[0].value)] if rets[0].value is not None else [])
                    out.extend(expand(b, d - 1))
                    continue
                if b is not None and len(rets) == 1 and b and b[-1] is rets[0] and rets[0].value is not None:
                    if isinstance(s, ast.Assign):
                        out.extend(expand(b[:-1], d - 1))
                        out.append(ast.copy_location(ast.Assign(targets=s.targets, value=rets[0].value), s))
                        continue
                    if isinstance(s, ast.Return):
                        out.extend(expand(b[:-1], d - 1))
                        out.append(ast.copy_location(ast.Return(value=rets[0].value), s))
                        continue
            out.append(s)
        return out

    class _ExprInline(ast.NodeTransformer):
        def visit_Call(self, c: ast.Call) -> ast.AST:
            self.generic_visit(c)
            g = callee_of(c)
            if g is not None:
                b = [s for s in g.node.body if not (isinstance(s, ast.Expr) and isinstance(s.value, ast.Constant))]
                if len(b) == 1 and isinstance(b[0], ast.Return) and b[0].value is not None:
                    m = bind(g, c)
                    if m is not None:
                        return _Subst(m).visit(copy.deepcopy(b[0].value))
            return c

    fn.body = expand(fn.body, depth)
    for _ in range(depth):
        fn = _ExprInline().visit(fn)
    ast.fix_missing_locations(fn)
    return fn


def expand_local_aliases(fn: ast.FunctionDef) -> ast.FunctionDef:
    """replaces local names that are bound exactly once, by a plain assignment, to an attribute chain rooted at `self`
    (no call in it) by that chain - and drops the binding. Only for matching shapes."""
    fn = copy.deepcopy(fn)
    binds: dict[str, list[ast.Assign]] = {}
    stores: dict[str, int] = {}
    for n in ast.walk(fn):
        if isinstance(n, ast.Name) and isinstance(n.ctx, (ast.Store, ast.Del)):
            stores[n.id] = stores.get(n.id, 0) + 1
        if isinstance(n, ast.Assign) and len(n.targets) == 1 and isinstance(n.targets[0], ast.Name):
            binds.setdefault(n.targets[0].id, []).append(n)
    params = {a.arg for a in fn.args.args + fn.args.kwonlyargs}
    mapping: dict[str, ast.expr] = {}
    for nm, bs in binds.items():
        if nm in params or stores.get(nm, 0) != 1 or len(bs) != 1:
            continue
        v = bs[0].value
        chain = v
        ok = True
        while isinstance(chain, ast.Attribute):
            chain = chain.value
        if not (isinstance(chain, ast.Name) and chain.id == "self") or any(isinstance(x, ast.Call) for x in ast.walk(v)):
            ok = False
        if ok and isinstance(v, ast.Attribute):
            mapping[nm] = v
    if not mapping:
        return fn
    # aliases of aliases
    for _ in range(3):
        for nm in list(mapping):
            mapping[nm] = _Subst({k: v for k, v in mapping.items() if k != nm}).visit(copy.deepcopy(mapping[nm]))

    class _Drop(ast.NodeTransformer):
        def visit_Assign(self, n: ast.Assign) -> Any:
            if len(n.targets) == 1 and isinstance(n.targets[0], ast.Name) and n.targets[0].id in mapping:
                return None
            return self.generic_visit(n)

    fn = _Drop().visit(fn)
    fn = _Subst(mapping).visit(fn)
    ast.fix_missing_locations(fn)
    return fn


def normalised(prog: Any, fi: Any) -> ast.FunctionDef:
    return expand_local_aliases(inline_private_helpers(prog, fi))

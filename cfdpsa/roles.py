"""Role discovery: private attributes and classes of the two handlers are recognised by *structure*
(what the public properties return, what `get_next_packet` pops, annotation types, constructor
calls) and renamed, in the parsed syntax trees only, to the canonical names the rule tables use.
A private rename in the analysed tree therefore neither blinds nor breaks a rule.  Roles that have
no structural anchor keep their names (a rename of those is an ANALYSIS-ERROR, never a guess)."""
from __future__ import annotations

import ast
from typing import Any

HANDLERS = {"cfdppy.handler.source": "SourceHandler", "cfdppy.handler.dest": "DestHandler"}
CANON_WRAPPER = {"SourceHandler": "_TransferFieldWrapper", "DestHandler": "_DestFieldWrapper"}
CANON_FP = {"SourceHandler": "_SourceFileParams", "DestHandler": "_DestFileParams"}


def _ret_chain(cls: ast.ClassDef, prop: str) -> list[str] | None:
    """attribute chain returned by a public property / method: `return self.a.b` -> ['a', 'b']"""
    for n in cls.body:
        if isinstance(n, ast.FunctionDef) and n.name == prop and not any(ast.unparse(d).endswith(".setter") for d in n.decorator_list):
            rets = [r for r in ast.walk(n) if isinstance(r, ast.Return) and r.value is not None]
            for r in reversed(rets):
                parts = []
                e = r.value
                while isinstance(e, ast.Attribute):
                    parts.append(e.attr)
                    e = e.value
                if isinstance(e, ast.Name) and e.id == "self" and parts:
                    return list(reversed(parts))
    return None


def _init_attr_classes(cls: ast.ClassDef) -> dict[str, str]:
    """self.x = ClassName(...) / ClassName.empty() / annotated `self.x: T = ...` in __init__ -> {x: class or annotation}"""
    out: dict[str, str] = {}
    for n in cls.body:
        if isinstance(n, ast.FunctionDef) and n.name == "__init__":
            for s in ast.walk(n):
                tgt = val = ann = None
                if isinstance(s, ast.AnnAssign):
                    tgt, val, ann = s.target, s.value, s.annotation
                elif isinstance(s, ast.Assign) and len(s.targets) == 1:
                    tgt, val = s.targets[0], s.value
                if isinstance(tgt, ast.Attribute) and isinstance(tgt.value, ast.Name) and tgt.value.id == "self":
                    if ann is not None:
                        out[tgt.attr] = "ann:" + ast.unparse(ann)
                    if isinstance(val, ast.Call):
                        f = ast.unparse(val.func)
                        out.setdefault(tgt.attr + "#ctor", f)
    return out


def _fields(cls: ast.ClassDef) -> dict[str, str]:
    """annotated fields of a class (dataclass fields and annotated/constructed __init__ attributes) -> annotation/ctor text"""
    out: dict[str, str] = {}
    for n in cls.body:
        if isinstance(n, ast.AnnAssign) and isinstance(n.target, ast.Name):
            out[n.target.id] = ast.unparse(n.annotation)
    for k, v in _init_attr_classes(cls).items():
        if k.endswith("#ctor"):
            out.setdefault(k[:-5], "ctor:" + v)
        else:
            out[k] = v[4:]
    return out


SHARED = ("cfdppy.handler.common", "cfdppy.handler.defs", "cfdppy.mib")


def discover(trees: dict[str, ast.Module], only_mod: str | None = None) -> tuple[dict[str, str], dict[str, str], list[str]]:
    """-> (attribute renames actual->canonical, class renames actual->canonical, notes) for one handler module
    (its own classes shadow the shared ones) or, with only_mod None, for the fault-handler table"""
    attr: dict[str, str] = {}
    clsmap: dict[str, str] = {}
    notes: list[str] = []
    classes: dict[str, ast.ClassDef] = {}
    order = ([only_mod] if only_mod else []) + [m for m in SHARED if m in trees]
    for m in order:
        for n in trees[m].body:
            if isinstance(n, ast.ClassDef):
                classes.setdefault(n.name, n)

    def put(actual: str | None, canon: str, why: str) -> None:
        if actual is None or actual == canon:
            return
        if actual in attr and attr[actual] != canon:
            notes.append(f"role conflict for attribute {actual}: {attr[actual]} vs {canon} ({why})")
            return
        attr[actual] = canon
        notes.append(f"attribute {actual} plays the role of {canon} ({why})")

    def putc(actual: str | None, canon: str, why: str) -> None:
        if actual is None or actual == canon or actual not in classes:
            return
        clsmap[actual] = canon
        notes.append(f"class {actual} plays the role of {canon} ({why})")

    for mod, hname in HANDLERS.items():
        if mod != only_mod:
            continue
        h = classes.get(hname)
        if h is None:
            continue
        inits = _init_attr_classes(h)
        ch = _ret_chain(h, "state")
        states_attr = None
        if ch and len(ch) == 2:
            states_attr = ch[0]
            put(ch[0], "states", "returned by the public state property")
            put(ch[1], "state", "returned by the public state property")
        ch = _ret_chain(h, "step")
        if ch and len(ch) == 2:
            put(ch[1], "step", "returned by the public step property")
        ch = _ret_chain(h, "transaction_id")
        params_attr = None
        if ch and len(ch) == 2:
            params_attr = ch[0]
            put(ch[0], "_params", "root of the public transaction_id property")
            put(ch[1], "transaction_id", "returned by the public transaction_id property")
        wrapper = None
        if params_attr:
            ctor = inits.get(params_attr + "#ctor")
            if ctor and ctor.split(".")[0] in classes:
                wrapper = classes[ctor.split(".")[0]]
                putc(wrapper.name, CANON_WRAPPER[hname], "class of the per-transaction parameter block")
        # queue and ready counter from get_next_packet
        for n in h.body:
            if isinstance(n, ast.FunctionDef) and n.name == "get_next_packet":
                for c in ast.walk(n):
                    if isinstance(c, ast.Call) and isinstance(c.func, ast.Attribute) and c.func.attr == "popleft" and isinstance(c.func.value, ast.Attribute):
                        put(c.func.value.attr, "_pdus_to_be_sent", "receiver of popleft() in get_next_packet")
                    if isinstance(c, ast.AugAssign) and isinstance(c.target, ast.Attribute) and isinstance(c.op, ast.Sub):
                        put(c.target.attr, "_num_packets_ready", "decremented in get_next_packet")
        ch = _ret_chain(h, "get_put_request")
        if ch and len(ch) == 1:
            put(ch[0], "_put_req", "returned by get_put_request()")
        ch = _ret_chain(h, "progress")
        fp_cls = None
        if ch and len(ch) == 3:
            put(ch[1], "fp", "block holding the public progress property")
            put(ch[2], "progress", "returned by the public progress property")
            if wrapper is not None:
                t = _fields(wrapper).get(ch[1], "")
                nm = t.replace("ctor:", "").split(".")[0].split("[")[0].strip()
                if nm in classes:
                    fp_cls = classes[nm]
                    putc(nm, CANON_FP[hname], "class of the file parameter block")
        ch = _ret_chain(h, "file_size")
        if ch and len(ch) == 3:
            put(ch[2], "file_size", "returned by the public file_size property")
        for prop, canon in (("closure_requested", "closure_requested"), ("current_check_counter", "current_check_count")):
            ch = _ret_chain(h, prop)
            if ch and len(ch) == 2:
                put(ch[1], canon, f"returned by the public {prop} property")
        ch = _ret_chain(h, "deferred_lost_segment_procedure_active")
        acked_cls = None
        if ch and len(ch) == 3:
            put(ch[1], "acked_params", "block holding the deferred-procedure flag")
            put(ch[2], "deferred_lost_segment_detection_active", "returned by deferred_lost_segment_procedure_active")
            if wrapper is not None:
                t = _fields(wrapper).get(ch[1], "")
                nm = t.replace("ctor:", "").split(".")[0].split("(")[0].strip()
                acked_cls = classes.get(nm)
                if acked_cls is not None:
                    putc(acked_cls.name, "_AckedModeParams", "class of the acked-mode block")
        ch = _ret_chain(h, "nak_activity_counter")
        if ch and len(ch) == 3:
            put(ch[2], "nak_activity_counter", "returned by the public nak_activity_counter property")
        ch = _ret_chain(h, "positive_ack_counter")
        pa_cls = None
        if ch and len(ch) == 3:
            put(ch[1], "positive_ack_params", "block holding the positive-ACK counter")
            put(ch[2], "ack_counter", "returned by the public positive_ack_counter property")
            if wrapper is not None:
                t = _fields(wrapper).get(ch[1], "")
                nm = t.replace("ctor:", "").split(".")[0].split("(")[0].strip()
                pa_cls = classes.get(nm)
        elif ch and len(ch) == 2 and wrapper is not None:
            ch2 = _ret_chain(wrapper, ch[1])
            if ch2 and len(ch2) == 2:
                put(ch2[0], "positive_ack_params", "block holding the positive-ACK counter")
                put(ch2[1], "ack_counter", "returned by the positive_ack_counter property")
                t = _fields(wrapper).get(ch2[0], "")
                nm = t.replace("ctor:", "").split(".")[0].split("(")[0].strip()
                pa_cls = classes.get(nm)
        if pa_cls is not None:
            putc(pa_cls.name, "_PositiveAckProcedureParams", "class of the positive-ACK block")
            for k, t in _fields(pa_cls).items():
                if "Countdown" in t:
                    put(k, "ack_timer", "Countdown field of the positive-ACK block")
        # typed fields of the parameter block
        if wrapper is not None:
            for k, t in _fields(wrapper).items():
                tt = t.replace("ctor:", "")
                if "FinishedParams" in tt:
                    put(k, "finished_params", "field of type FinishedParams")
                elif "RemoteEntityCfg" in tt:
                    put(k, "remote_cfg", "field of type RemoteEntityCfg")
                elif tt.startswith("PduConfig"):
                    put(k, "pdu_conf", "field initialised from PduConfig")
                elif "ConditionCode" in tt and hname == "SourceHandler":
                    put(k, "cond_code_eof", "ConditionCode field of the source parameter block")
                elif "CompletionDisposition" in tt:
                    put(k, "completion_disposition", "field of type CompletionDisposition")
                elif "ChecksumType" in tt:
                    put(k, "checksum_type", "field of type ChecksumType")
                elif "Countdown" in tt:
                    put(k, "check_timer", "Countdown field of the parameter block")
                else:
                    nm = tt.split(".")[0].split("(")[0].strip()
                    c2 = classes.get(nm)
                    if c2 is not None and hname == "SourceHandler" and any("TransactionStep" in v for v in _fields(c2).values()):
                        put(k, "ack_params", "block holding the step saved before a retransmission")
                        putc(c2.name, "_AckedModeParams", "class of the source's acked-mode block")
                        for k2, t2 in _fields(c2).items():
                            if "TransactionStep" in t2:
                                put(k2, "step_before_retransmission", "TransactionStep field of the source acked-mode block")
        if acked_cls is not None:
            ints = []
            for k, t in _fields(acked_cls).items():
                if "Countdown" in t:
                    put(k, "procedure_timer", "Countdown field of the acked-mode block")
                elif "LostSegmentTracker" in t:
                    put(k, "lost_seg_tracker", "field of type LostSegmentTracker")
                elif t.strip() == "int":
                    ints.append(k)
            # the gap bookkeeping offsets: add_lost_segment((<last end>, offset))
            for c in ast.walk(h):
                if isinstance(c, ast.Call) and isinstance(c.func, ast.Attribute) and c.func.attr == "add_lost_segment" and c.args and isinstance(c.args[0], ast.Tuple) \
                        and len(c.args[0].elts) == 2 and isinstance(c.args[0].elts[0], ast.Attribute) and isinstance(c.args[0].elts[1], ast.Name) and c.args[0].elts[0].attr in ints:
                    le = c.args[0].elts[0].attr
                    put(le, "last_end_offset", "first component of the gap recorded on a jump in the offsets")
                    rest = [k for k in ints if k != le and attr.get(k, k) not in ("nak_activity_counter",)]
                    if len(rest) == 1:
                        put(rest[0], "last_start_offset", "the other offset of the gap bookkeeping")
    # fault-handler table: the attribute bound to a dict literal keyed by ConditionCode members
    fh = classes.get("DefaultFaultHandlerBase") if only_mod is None else None
    if fh is not None:
        for n in ast.walk(fh):
            tgt = val = None
            if isinstance(n, ast.AnnAssign):
                tgt, val = n.target, n.value
            elif isinstance(n, ast.Assign) and len(n.targets) == 1:
                tgt, val = n.targets[0], n.value
            if isinstance(tgt, ast.Attribute) and isinstance(val, ast.Dict) and val.keys and all(k is not None and ast.unparse(k).startswith("ConditionCode.") for k in val.keys):
                put(tgt.attr, "_handler_dict", "dict literal keyed by ConditionCode members")
    return attr, clsmap, notes


class _Renamer(ast.NodeTransformer):
    def __init__(self, attr: dict[str, str], cls: dict[str, str]) -> None:
        self.attr, self.cls = attr, cls

    def visit_Attribute(self, n: ast.Attribute) -> Any:
        self.generic_visit(n)
        if n.attr in self.attr:
            n.attr = self.attr[n.attr]
        return n

    def visit_Name(self, n: ast.Name) -> Any:
        if n.id in self.cls:
            n.id = self.cls[n.id]
        return n

    def visit_ClassDef(self, n: ast.ClassDef) -> Any:
        if n.name in self.cls:
            n.name = self.cls[n.name]
        self.generic_visit(n)
        return n

    def visit_AnnAssign(self, n: ast.AnnAssign) -> Any:
        self.generic_visit(n)
        if isinstance(n.target, ast.Name) and n.target.id in self.attr:
            n.target.id = self.attr[n.target.id]  # dataclass field
        return n

    def visit_keyword(self, n: ast.keyword) -> Any:
        self.generic_visit(n)
        if n.arg in self.attr:
            n.arg = self.attr[n.arg]
        return n

    def visit_Constant(self, n: ast.Constant) -> Any:
        # string annotations (from __future__ import annotations keeps them as expressions; quoted ones are rare)
        return n


def _used_attrs(t: ast.Module) -> set[str]:
    return {n.attr for n in ast.walk(t) if isinstance(n, ast.Attribute)} | {n.target.id for n in ast.walk(t) if isinstance(n, ast.AnnAssign) and isinstance(n.target, ast.Name)}


def canonicalise(trees: dict[str, ast.Module]) -> list[str]:
    """renames, in place and per handler module, the discovered private attributes/classes to their canonical
    names; fields of the shared blocks (handler/common.py, handler/defs.py, mib.py) are renamed there too when
    every handler that uses them agrees; returns notes"""
    notes: list[str] = []
    per_mod: dict[str, tuple[dict[str, str], dict[str, str]]] = {}
    for mod in HANDLERS:
        if mod in trees:
            a, c, n = discover(trees, mod)
            per_mod[mod] = (a, c)
            notes += [f"{mod.split('.')[-1]}: {x}" for x in n]
    a0, c0, n0 = discover(trees, None)
    notes += n0
    shared_attr: dict[str, str] = dict(a0)
    shared_cls: dict[str, str] = dict(c0)
    for mod, (a, c) in per_mod.items():
        for k, v in a.items():
            if all(k not in _used_attrs(trees[m2]) or per_mod[m2][0].get(k) == v for m2 in per_mod):
                shared_attr.setdefault(k, v)
        for k, v in c.items():
            if any(isinstance(n, ast.ClassDef) and n.name == k for m2 in SHARED if m2 in trees for n in trees[m2].body):
                shared_cls[k] = v
    for mod, (a, c) in per_mod.items():
        used = _used_attrs(trees[mod])
        clash = [f"{k}->{v}" for k, v in a.items() if v in used]
        if clash:
            notes.append(f"{mod}: canonical names already present, renaming skipped for {clash}")
            a = {k: v for k, v in a.items() if v not in used}
        trees[mod] = ast.fix_missing_locations(_Renamer(a, {**shared_cls, **c}).visit(trees[mod]))
    for m2 in SHARED:
        if m2 in trees and (shared_attr or shared_cls):
            used = _used_attrs(trees[m2])
            a2 = {k: v for k, v in shared_attr.items() if v not in used}
            trees[m2] = ast.fix_missing_locations(_Renamer(a2, shared_cls).visit(trees[m2]))
    return notes


def _canonicalise_old(trees: dict[str, ast.Module]) -> list[str]:
    attr, cls, notes = discover(trees)
    if not attr and not cls:
        return []
    # a canonical name that is already in use for something else in the tree makes the renaming ambiguous
    used = set()
    for t in trees.values():
        for n in ast.walk(t):
            if isinstance(n, ast.Attribute):
                used.add(n.attr)
    for a, c in list(attr.items()):
        if c in used and c not in attr.values():
            pass
        if c in used and a != c and any(True for _ in ()):  # pragma: no cover
            pass
    clash = [f"{a}->{c}" for a, c in attr.items() if c in used]
    if clash:
        notes.append(f"canonical names already present in the tree, renaming skipped for: {clash}")
        attr = {a: c for a, c in attr.items() if c not in used}
    r = _Renamer(attr, cls)
    for m in list(trees):
        trees[m] = ast.fix_missing_locations(r.visit(trees[m]))
    return notes

"""D22 (C12-R4): acknowledged mode, an EOF (cancel) arrives while a gap is recorded. After the ACK(EOF) the destination
starts the deferred lost segment procedure for the cancelled transaction (NAK), and when the data arrives the checksum
verification overwrites the cancel condition: the transaction finishes NO_ERROR / DATA_COMPLETE / FILE_RETAINED instead of
with the condition of the EOF (cancel)."""
import sys, os, time, zlib, struct
sys.path.insert(0, "/verif/findings/repro")
from harness import *
from spacepackets.cfdp.tlv import EntityIdTlv
with TmpDir() as d:
    h, u, fh = mk_dest(mode=TransmissionMode.ACKNOWLEDGED, closure=True, nak_timer_expiration_limit=3, immediate_nak_mode=False,
                       nak_timer_interval_seconds=0.05, positive_ack_timer_interval_seconds=0.05)
    conf = pdu_conf(TransmissionMode.ACKNOWLEDGED)
    data = b"0123456789ABCDEFGHIJ"
    md = MetadataPdu(conf, MetadataParams(True, ChecksumType.CRC_32, 40, "src.bin", str(d / "dst.bin")))
    h.state_machine(md); drain(h)
    h.state_machine(FileDataPdu(conf, FileDataParams(data[10:20], 10))); print("after FD[10:20]:", [type(p.pdu).__name__ for p in drain(h)])
    crc = struct.pack("!I", zlib.crc32(data))
    h.state_machine(EofPdu(conf, crc, 20, condition_code=ConditionCode.CANCEL_REQUEST_RECEIVED, fault_location=EntityIdTlv(SRC_ID.as_bytes))); print("after EOF(cancel):", h.step.name, [type(p.pdu).__name__ for p in drain(h)])
    h.state_machine(); o = drain(h); print("next:", h.step.name, [(type(p.pdu).__name__, getattr(p.pdu, 'segment_requests', None)) for p in o])
    h.state_machine(FileDataPdu(conf, FileDataParams(data[0:10], 0))); o = drain(h); print("after FD[0:10]:", h.step.name, [(type(p.pdu).__name__) for p in o])
    for _ in range(3):
        h.state_machine(); o = drain(h); print("tick:", h.step.name, [(type(p.pdu).__name__, getattr(p.pdu,'condition_code',None), getattr(p.pdu,'delivery_code',None)) for p in o])
    fin = [c[1].finished_params for c in u.calls if c[0] == "finished"]
    print("finished:", [(f.condition_code.name, f.delivery_code.name, f.file_status.name) for f in fin], "file exists:", (d/"dst.bin").exists())
    print("PRESENT" if fin and fin[0].condition_code == ConditionCode.NO_ERROR else "absent")

"""Exploration only (NOT part of any check): a real SourceHandler/DestHandler pair over a link that drops one chosen PDU.
Used to cross-validate the static product analysis C03-R2 on the repaired tree: the only unrecoverable single drop is ACK(EOF) (D9.p)."""
import sys, os, time, itertools
sys.path.insert(0, "/verif/findings/repro")
from harness import *
from cfdppy.handler.dest import acknowledge_inactive_eof_pdu
from cfdppy.exceptions import *
A = TransmissionMode.ACKNOWLEDGED
def kind(p):
    n = type(p).__name__.replace("Pdu", "")
    if n == "Ack":
        n += "(" + p.directive_code_of_acked_pdu.name.replace("_PDU", "") + ")"
    return n
def run(size, immediate, drop, seg=64, verbose=False, limit=4):
    """drop: set of (direction, kind, occurrence) to drop"""
    with TmpDir() as d:
        src = d / "src.bin"; src.write_bytes((bytes(range(256)) * (size // 256 + 1))[:size])
        kw = dict(seg=seg, positive_ack_timer_interval_seconds=0.02, nak_timer_interval_seconds=0.02,
                  positive_ack_timer_expiration_limit=limit, nak_timer_expiration_limit=limit, immediate_nak_mode=immediate)
        s, su, sfh = mk_source(mode=A, closure=True, **kw)
        r, ru, rfh = mk_dest(mode=A, closure=True, **kw)
        s.put_request(PutRequest(DST_ID, src, d / "dst.bin", A, True))
        cnt = {}
        log = []
        to_r, to_s = [], []
        t0 = time.time()
        def deliver(h, q, name):
            exc = None
            pkt = q.pop(0) if q else None
            try:
                h.state_machine(pkt)
            except UnretrievedPdusToBeSent:
                exc = "Unretrieved"
            except Exception as e:
                exc = type(e).__name__
                # entity level: closed transaction answers
                if pkt is not None and name == "r" and type(pkt).__name__ == "EofPdu" and r.state.name == "IDLE":
                    to_s.append(acknowledge_inactive_eof_pdu(pkt, TransactionStatus.TERMINATED))
            if exc: log.append(f"{name}!{exc}({kind(pkt) if pkt else None})")
        src_closed_acked = 0
        while time.time() - t0 < 1.5:
            # source side
            if s.state.name == "IDLE" and to_s:
                pkt = to_s.pop(0)
                if type(pkt).__name__ == "FinishedPdu":
                    ack = AckPdu(pdu_conf=PduConfig(source_entity_id=SRC_ID, dest_entity_id=DST_ID, transaction_seq_num=pkt.pdu_header.transaction_seq_num, trans_mode=A),
                                 directive_code_of_acked_pdu=DirectiveType.FINISHED_PDU, condition_code_of_acked_pdu=pkt.condition_code, transaction_status=TransactionStatus.TERMINATED)
                    to_r.append(ack); log.append("entity:Ack(FINISHED)")
            else:
                deliver(s, to_s, "s")
            for p in drain(s):
                k = ("s", kind(p.pdu)); cnt[k] = cnt.get(k, 0) + 1
                if (k[0], k[1], cnt[k]) in drop: log.append(f"DROP s>{k[1]}#{cnt[k]}"); continue
                log.append("s>" + k[1]); to_r.append(p.pdu)
            deliver(r, to_r, "r")
            for p in drain(r):
                k = ("r", kind(p.pdu)); cnt[k] = cnt.get(k, 0) + 1
                if (k[0], k[1], cnt[k]) in drop: log.append(f"DROP r>{k[1]}#{cnt[k]}"); continue
                log.append("r>" + k[1]); to_s.append(p.pdu)
            sf = [c for c in su.calls if c[0] == "finished"]; rf = [c for c in ru.calls if c[0] == "finished"]
            if s.state.name == "IDLE" and r.state.name == "IDLE" and not to_r and not to_s:
                break
            if not to_r and not to_s:
                time.sleep(0.005)
        ok_file = (d / "dst.bin").exists() and (d / "dst.bin").read_bytes() == src.read_bytes()
        sf = [c[1].finished_params for c in su.calls if c[0] == "finished"]; rf = [c[1].finished_params for c in ru.calls if c[0] == "finished"]
        good = ok_file and len(sf) == 1 and len(rf) == 1 and sf[0].condition_code.name == "NO_ERROR" and rf[0].condition_code.name == "NO_ERROR" and rf[0].delivery_code.name == "DATA_COMPLETE" and s.state.name == "IDLE" and r.state.name == "IDLE"
        return good, dict(file=ok_file, s=(s.state.name, s.step.name), r=(r.state.name, r.step.name), sf=[(f.condition_code.name, f.delivery_code.name) for f in sf], rf=[(f.condition_code.name, f.delivery_code.name) for f in rf],
                          sfaults=[(a, c.name) for a, c in sfh.calls], rfaults=[(a, c.name) for a, c in rfh.calls]), log
if __name__ == "__main__":
    kinds_s = ["Metadata", "FileData", "Eof", "Ack(FINISHED)"]
    kinds_r = ["Ack(EOF)", "Nak", "Finished"]
    bad = 0
    for size in (0, 10, 200):
        for imm in (False, True):
            g, info, log = run(size, imm, set())
            print(f"size={size} imm={imm} nodrop: {'ok' if g else 'FAIL ' + str(info)}")
            for dirn, ks in (("s", kinds_s), ("r", kinds_r)):
                for k in ks:
                    for occ in (1, 2):
                        g, info, log = run(size, imm, {(dirn, k, occ)})
                        if not any(l.startswith("DROP") for l in log):
                            continue
                        if not g:
                            bad += 1
                            print(f"size={size} imm={imm} drop {dirn}>{k}#{occ}: FAIL {info}\n     " + " ".join(log)[:600])
    print("failures:", bad)

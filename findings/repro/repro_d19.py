"""D19 (C04-R3): metadata-only put request, unacknowledged mode with closure: the sender waits for the
Finished PDU without ever starting its check timer - a silent peer hangs the transaction forever."""
import sys, os, time
sys.path.insert(0, os.path.dirname(__file__))
from harness import *
h, u, fh = mk_source(mode=TransmissionMode.UNACKNOWLEDGED, closure=True)
h.put_request(PutRequest(DST_ID, None, None, None, None))
for _ in range(50):
    h.state_machine(); drain(h); time.sleep(0.001)
print("state", h.state, "step", h.step, "check timer", h._params.check_timer, "faults", fh.calls)
print("PRESENT" if str(h.step).endswith("WAITING_FOR_FINISHED") and h._params.check_timer is None else "absent")

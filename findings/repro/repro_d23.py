"""D23 (C12-R5): acknowledged mode, an EOF (cancel) PDU that arrives before the Metadata PDU (as the first PDU of the
transaction or while the handler waits for the Metadata) is processed by _handle_eof_without_previous_metadata, which never
looks at the EOF's condition code: the cancelled transaction is treated like a complete one - the Metadata and the file data
are re-requested by NAK and the transaction can finish NO_ERROR / DATA_COMPLETE instead of with the EOF's condition."""
import sys, os, time, zlib, struct
sys.path.insert(0, os.path.dirname(__file__))
from harness import *
from spacepackets.cfdp.tlv import EntityIdTlv
with TmpDir() as d:
    h, u, fh = mk_dest(mode=TransmissionMode.ACKNOWLEDGED, closure=True, nak_timer_expiration_limit=3, immediate_nak_mode=False,
                       nak_timer_interval_seconds=0.05, positive_ack_timer_interval_seconds=0.05)
    conf = pdu_conf(TransmissionMode.ACKNOWLEDGED)
    data = b"0123456789"
    crc = struct.pack("!I", zlib.crc32(data))
    h.state_machine(EofPdu(conf, crc, 10, condition_code=ConditionCode.CANCEL_REQUEST_RECEIVED, fault_location=EntityIdTlv(SRC_ID.as_bytes)))
    print("after EOF(cancel) as first PDU:", h.step.name, [type(p.pdu).__name__ for p in drain(h)])
    h.state_machine(); o = drain(h); print("next:", h.step.name, [(type(p.pdu).__name__, getattr(p.pdu, 'segment_requests', None)) for p in o])
    md = MetadataPdu(conf, MetadataParams(True, ChecksumType.CRC_32, 40, "src.bin", str(d / "dst.bin")))
    h.state_machine(md); drain(h)
    h.state_machine(FileDataPdu(conf, FileDataParams(data, 0))); drain(h)
    for _ in range(3):
        h.state_machine(); drain(h)
    fin = [c[1].finished_params for c in u.calls if c[0] == "finished"]
    print("finished:", [(f.condition_code.name, f.delivery_code.name, f.file_status.name) for f in fin])
    print("PRESENT" if o and (not fin or fin[0].condition_code == ConditionCode.NO_ERROR) else "absent")

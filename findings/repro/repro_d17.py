"""D17 (C05-R3): cancel before the Metadata PDU arrived, disposition-on-cancellation set:
the destination handler calls vfs.delete_file(Path()) - a path that is not a destination file."""
import sys, os
sys.path.insert(0, os.path.dirname(__file__))
from harness import *
from cfdppy.filestore import NativeFilestore
A = TransmissionMode.ACKNOWLEDGED
calls = []
class Spy(NativeFilestore):
    def delete_file(self, file):
        calls.append(file); return super().delete_file(file)
h, u, fh = mk_dest(vfs=Spy(), mode=A, disposition_on_cancellation=True, positive_ack_timer_interval_seconds=10.0)
conf = pdu_conf(A)
h.state_machine(FileDataPdu(conf, FileDataParams(file_data=b"x" * 10, offset=0))); drain(h)
print("step", h.step)
print("cancel ->", h.cancel_request(h.transaction_id))
h.state_machine(); drain(h)
print("delete_file calls:", calls, "PRESENT" if calls and str(calls[0]) == "." else "absent")

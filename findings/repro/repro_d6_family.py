"""Reproductions of the C10-R2 findings (UnretrievedPdusToBeSent raised although the queue was
empty when the call was made).  Not part of any registered check."""
import sys, os, time
sys.path.insert(0, os.path.dirname(__file__))
from harness import *
from cfdppy.exceptions import UnretrievedPdusToBeSent
from cfdppy.handler.dest import TransactionStep
A = TransmissionMode.ACKNOWLEDGED

def md(conf, size, name=True):
    p = MetadataParams(closure_requested=False, checksum_type=ChecksumType.NULL_CHECKSUM, file_size=size,
                       source_file_name="/tmp/s" if name else None, dest_file_name=None)
    return p

def run(label, f):
    try:
        r = f()
        print(f"{label}: {'PRESENT' if r else 'absent'}")
    except Exception as e:
        print(f"{label}: ERROR {type(e).__name__}: {e}")

def fd(conf, off, data):
    return FileDataPdu(conf, FileDataParams(file_data=data, offset=off))

def mk(tmp, **kw):
    h, u, fh = mk_dest(mode=A, **kw)
    return h, u, fh

def case_c():
    # EOF first (acked), drained, then a metadata-only Metadata PDU
    with TmpDir() as d:
        h, u, fh = mk(d)
        conf = pdu_conf(A)
        h.state_machine(EofPdu(conf, b"\0\0\0\0", 0)); drain(h)
        assert not h.packets_ready
        mp = MetadataParams(closure_requested=False, checksum_type=ChecksumType.NULL_CHECKSUM, file_size=0, source_file_name=None, dest_file_name=None)
        try:
            h.state_machine(MetadataPdu(conf, mp))
        except UnretrievedPdusToBeSent:
            return True
        return False

def case_d():
    # Metadata, FD at offset 10 (gap 0..10 -> immediate NAK off), EOF, drain, then the missing FD
    with TmpDir() as d:
        h, u, fh = mk(d, immediate_nak_mode=False)
        conf = pdu_conf(A)
        mp = MetadataParams(closure_requested=False, checksum_type=ChecksumType.NULL_CHECKSUM, file_size=20, source_file_name="s", dest_file_name=str(d / "o"))
        h.state_machine(MetadataPdu(conf, mp)); drain(h)
        h.state_machine(fd(conf, 10, b"x" * 10)); drain(h)
        h.state_machine(EofPdu(conf, b"\0\0\0\0", 20)); drain(h)
        assert h.step == TransactionStep.SENDING_EOF_ACK_PDU and not h.packets_ready
        try:
            h.state_machine(fd(conf, 0, b"y" * 10))
        except UnretrievedPdusToBeSent:
            return True
        return False

def case_b():
    # EOF first, then Metadata, then an FD beyond the EOF size with a gap
    with TmpDir() as d:
        h, u, fh = mk(d)
        conf = pdu_conf(A)
        h.state_machine(EofPdu(conf, b"\0\0\0\0", 10)); drain(h)
        h.state_machine(); drain(h)
        mp = MetadataParams(closure_requested=False, checksum_type=ChecksumType.NULL_CHECKSUM, file_size=10, source_file_name="s", dest_file_name=str(d / "o"))
        h.state_machine(MetadataPdu(conf, mp)); drain(h)
        print("   step", h.step)
        try:
            h.state_machine(fd(conf, 50, b"z" * 10))
        except UnretrievedPdusToBeSent:
            return True
        return False

def case_e():
    # FD first (acked, no metadata), drain, EOF, drain, wait for NAK timer; limit 1; then another FD
    with TmpDir() as d:
        h, u, fh = mk(d, nak_timer_expiration_limit=1)
        conf = pdu_conf(A)
        h.state_machine(EofPdu(conf, b"\0\0\0\0", 10)); drain(h)
        h.state_machine(); drain(h)
        print("   step", h.step)
        time.sleep(0.01)
        try:
            h.state_machine(fd(conf, 0, b"z" * 5))
        except UnretrievedPdusToBeSent:
            return True
        return False

run("C10-R2 (c) EOF, drain, metadata-only Metadata in SENDING_EOF_ACK_PDU", case_c)
run("C10-R2 (d) last missing FD arrives in SENDING_EOF_ACK_PDU (deferred NAK + completion in one call)", case_d)
run("C10-R2 (b) beyond-EOF FD with gap in RECEIVING_FILE_DATA after EOF-before-Metadata", case_b)
run("C10-R2 (e) FD in WAITING_FOR_METADATA with NAK limit 1 expired", case_e)

"""Throw-away style harness used ONLY to reproduce findings against the real code.
Nothing under findings/ is part of a registered check (checks are static)."""
from __future__ import annotations
import tempfile, shutil, os
from pathlib import Path
from unittest.mock import MagicMock
from spacepackets.cfdp import ChecksumType, TransmissionMode, PduConfig, ConditionCode, Direction
from spacepackets.cfdp.pdu import (EofPdu, FileDataPdu, MetadataPdu, MetadataParams, NakPdu,
                                   AckPdu, FinishedPdu, DirectiveType, TransactionStatus)
from spacepackets.cfdp.pdu.file_data import FileDataParams
from spacepackets.seqcount import SeqCountProvider
from spacepackets.util import ByteFieldU8, ByteFieldU16
from spacepackets.countdown import Countdown
from datetime import timedelta
from cfdppy import IndicationCfg, LocalEntityCfg, RemoteEntityCfg, RemoteEntityCfgTable, CfdpUserBase
from cfdppy.mib import CheckTimerProvider, DefaultFaultHandlerBase
from cfdppy.handler import SourceHandler, DestHandler
from cfdppy.request import PutRequest


class FH(DefaultFaultHandlerBase):
    def __init__(self):
        super().__init__()
        self.calls = []
    def notice_of_suspension_cb(self, t, c, p): self.calls.append(("suspend", c))
    def notice_of_cancellation_cb(self, t, c, p): self.calls.append(("cancel", c))
    def abandoned_cb(self, t, c, p): self.calls.append(("abandon", c))
    def ignore_cb(self, t, c, p): self.calls.append(("ignore", c))


class User(CfdpUserBase):
    def __init__(self, vfs=None):
        super().__init__(vfs)
        self.calls = []
    def transaction_indication(self, p): self.calls.append(("transaction", p))
    def eof_sent_indication(self, t): self.calls.append(("eof_sent", t))
    def transaction_finished_indication(self, p): self.calls.append(("finished", p))
    def metadata_recv_indication(self, p): self.calls.append(("metadata", p))
    def file_segment_recv_indication(self, p): self.calls.append(("segment", p))
    def report_indication(self, t, s): pass
    def suspended_indication(self, t, c): pass
    def resumed_indication(self, t, p): pass
    def fault_indication(self, t, c, p): self.calls.append(("fault", c))
    def abandoned_indication(self, t, c, p): self.calls.append(("abandoned", c))
    def eof_recv_indication(self, t): self.calls.append(("eof_recv", t))


class CTP(CheckTimerProvider):
    def __init__(self, ms=0): self.ms = ms
    def provide_check_timer(self, l, r, t): return Countdown(timedelta(milliseconds=self.ms))


SRC_ID, DST_ID = ByteFieldU16(1), ByteFieldU16(2)


def remote(entity, mode=TransmissionMode.UNACKNOWLEDGED, closure=False, seg=64, maxp=256,
           crc=ChecksumType.CRC_32, **kw):
    d = dict(entity_id=entity, max_packet_len=maxp, max_file_segment_len=seg,
             closure_requested=closure, crc_on_transmission=False,
             default_transmission_mode=mode, crc_type=crc,
             positive_ack_timer_interval_seconds=0.0, nak_timer_interval_seconds=0.0)
    d.update(kw)
    return RemoteEntityCfg(**d)


def mk_source(mode=TransmissionMode.UNACKNOWLEDGED, closure=False, vfs=None, fh=None, ind=None, **kw):
    fh = fh or FH(); user = User(vfs)
    cfg = LocalEntityCfg(SRC_ID, ind or IndicationCfg(), fh)
    tab = RemoteEntityCfgTable([remote(DST_ID, mode, closure, **kw)])
    h = SourceHandler(cfg, user, tab, CTP(), SeqCountProvider(16))
    return h, user, fh


def mk_dest(vfs=None, fh=None, ind=None, **kw):
    fh = fh or FH(); user = User(vfs)
    cfg = LocalEntityCfg(DST_ID, ind or IndicationCfg(), fh)
    tab = RemoteEntityCfgTable([remote(SRC_ID, **kw)])
    h = DestHandler(cfg, user, tab, CTP())
    return h, user, fh


def pdu_conf(mode, seq=1):
    return PduConfig(source_entity_id=SRC_ID, dest_entity_id=DST_ID,
                     transaction_seq_num=ByteFieldU16(seq), trans_mode=mode)


def drain(h):
    out = []
    while True:
        p = h.get_next_packet()
        if p is None: return out
        out.append(p)


class TmpDir:
    def __enter__(self):
        self.d = Path(tempfile.mkdtemp(prefix="cfdp_repro_")); return self.d
    def __exit__(self, *a): shutil.rmtree(self.d, ignore_errors=True)

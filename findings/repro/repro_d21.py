"""D21 (C03-R1d): acknowledged mode, the EOF PDU overtakes (or replaces the lost) Metadata PDU.
_handle_eof_without_previous_metadata acknowledges the EOF but never stores its checksum, so when the Metadata and all
file data have been recovered the completion check compares the computed CRC with the initial b"" and always declares
FILE_CHECKSUM_FAILURE: the recovered transfer finishes as DATA_INCOMPLETE although the file is byte-identical.
(empty file chosen so that D20 - the late-Metadata hang for non-empty files - does not mask it)"""
import sys, os, time, zlib, struct
sys.path.insert(0, os.path.dirname(__file__))
from harness import *
with TmpDir() as d:
    h, u, fh = mk_dest(mode=TransmissionMode.ACKNOWLEDGED, closure=True, nak_timer_expiration_limit=3, immediate_nak_mode=False)
    conf = pdu_conf(TransmissionMode.ACKNOWLEDGED)
    data = b""
    crc = struct.pack("!I", zlib.crc32(data))
    h.state_machine(EofPdu(conf, crc, len(data))); drain(h)          # Metadata lost, EOF first
    h.state_machine(); naks = drain(h)                                 # NAK (0,0) re-requests the Metadata
    md = MetadataPdu(conf, MetadataParams(True, ChecksumType.CRC_32, len(data), "src.bin", str(d / "dst.bin")))
    try:
        h.state_machine(md)
    except Exception as e:  # D6.3: UnretrievedPdusToBeSent may leak here, the Finished PDU is queued nevertheless
        print("note:", type(e).__name__)
    out = drain(h)
    fin = [c[1].finished_params for c in u.calls if c[0] == "finished"]
    print("NAK:", [p.pdu.segment_requests for p in naks], "faults:", fh.calls, "file:", (d / "dst.bin").read_bytes(),
          "finished:", [(f.condition_code.name, f.delivery_code.name) for f in fin], "stored crc:", h._params.fp.crc32)
    present = any(c[1] == ConditionCode.FILE_CHECKSUM_FAILURE for c in fh.calls)
print("PRESENT" if present else "absent")

"""Reproductions of the defects repaired by `fix:` commits (D1,D2,D3,D4,D11,D12,D13,D14).
Run: /venv/bin/python /verif/findings/repro/repro_fixed.py  -> prints PRESENT/absent per defect.
Not part of any registered check."""
import sys, os, traceback
sys.path.insert(0, os.path.dirname(__file__))
from harness import *
from cfdppy.exceptions import *
from cfdppy.filestore import NativeFilestore, FilestoreResult
from cfdppy.defs import CfdpState

A = TransmissionMode.ACKNOWLEDGED; U = TransmissionMode.UNACKNOWLEDGED

def d1():
    a, _, _ = mk_dest(); b, _, _ = mk_dest()
    return a._params.acked_params.lost_seg_tracker is b._params.acked_params.lost_seg_tracker

def run_src(h, n=50):
    out = []
    for _ in range(n):
        h.state_machine(); out += drain(h)
        if h.state == CfdpState.IDLE: break
    return out

def d2():
    with TmpDir() as d:
        f1 = d / "a"; f1.write_bytes(b"x" * 10); f2 = d / "e"; f2.write_bytes(b"")
        h, _, _ = mk_source()
        h.put_request(PutRequest(DST_ID, f1, d / "o1", None, None)); run_src(h)
        h.put_request(PutRequest(DST_ID, f2, d / "o2", None, None))
        try: run_src(h); return False
        except TypeError: return True

class MemFs(NativeFilestore):
    """in-memory: paths do not exist on host"""
    def __init__(self): self.files = {}
    def file_exists(self, p): return str(p) in self.files
    def is_directory(self, p): return False
    def file_size(self, p): return len(self.files[str(p)])
    def read_data(self, p, off, n=None):
        b = self.files[str(p)]; off = off or 0
        return b[off:] if n is None else b[off:off + n]
    def calculate_checksum(self, checksum_type, file_path, size_to_verify, segment_len=4096): return b"\0\0\0\0"

def d3():
    fs = MemFs(); fs.files["/nonexistent_zz/a"] = b"hello world"
    h, _, _ = mk_source(vfs=fs)
    h.put_request(PutRequest(DST_ID, Path("/nonexistent_zz/a"), Path("/nonexistent_zz/b"), None, None))
    try:
        out = run_src(h)
        return not any(isinstance(p.pdu, FileDataPdu) and p.pdu.file_data == b"hello world" for p in out)
    except (SourceFileDoesNotExist, FileNotFoundError): return True

def d4():
    with TmpDir() as d:
        f1 = d / "a"; f1.write_bytes(bytes(range(100)))
        h, _, _ = mk_source(mode=A)
        h.put_request(PutRequest(DST_ID, f1, d / "o1", None, None))
        h.state_machine(); drain(h)      # metadata
        h.state_machine(); drain(h)      # FD 0..64
        nak = NakPdu(pdu_conf(A, 0), 0, 300, [(0, 300)]); nak.pdu_file_directive.pdu_header.direction = Direction.TOWARDS_SENDER
        try:
            h.state_machine(nak)
        except InvalidNakPdu: return False
        out = drain(h)
        return any(p.pdu.offset >= 64 for p in out)

def d11a():
    with TmpDir() as d:
        f = d / "a"; f.write_bytes(bytes(range(1, 11)))
        fs = NativeFilestore()
        return fs.calculate_checksum(ChecksumType.MODULAR, f, 0) == fs.calculate_checksum(ChecksumType.MODULAR, f, 10)

def d11b():
    import time
    with TmpDir() as d:
        f1 = d / "a"; f1.write_bytes(bytes(range(200)))
        h, _, _ = mk_source(mode=A, positive_ack_timer_expiration_limit=5)
        h.put_request(PutRequest(DST_ID, f1, d / "o1", None, None))
        h.state_machine(); drain(h); h.state_machine(); drain(h)   # md, FD 0..64
        h.cancel_request(h.transaction_id); eof1 = drain(h)[0].pdu
        time.sleep(0.002)
        h.state_machine(); eof2 = drain(h)[0].pdu
        return eof1.file_checksum != eof2.file_checksum

def d12():
    with TmpDir() as d:
        f1 = d / "a"; f1.write_bytes(bytes(range(200)))
        h, _, _ = mk_source(mode=A)
        h.put_request(PutRequest(DST_ID, f1, d / "o1", None, None))
        h.state_machine(); drain(h)
        c = pdu_conf(A, 0); c.direction = Direction.TOWARDS_SENDER
        fd = FileDataPdu(c, FileDataParams(b"abc", 0))
        fd.pdu_header.direction = Direction.TOWARDS_SENDER
        r = []
        try: h.state_machine(fd); r.append("accepted")
        except InvalidPduForSourceHandler: r.append("ok")
        except Exception as e: r.append(type(e).__name__)
        ack = AckPdu(c, DirectiveType.FINISHED_PDU, ConditionCode.NO_ERROR, TransactionStatus.ACTIVE)
        ack.pdu_file_directive.pdu_header.direction = Direction.TOWARDS_SENDER
        try: h.state_machine(ack); r.append("accepted")
        except InvalidPduForSourceHandler: r.append("ok")
        except UnretrievedPdusToBeSent: r.append("accepted")
        except Exception as e: r.append(type(e).__name__)
        return r != ["ok", "ok"], r

def d13():
    with TmpDir() as d:
        f1 = d / "a"; f1.write_bytes(bytes(range(100)))
        h, _, _ = mk_source(mode=U)
        h.put_request(PutRequest(DST_ID, f1, d / "o1", None, None))
        h.state_machine(); drain(h); h.state_machine(); drain(h)
        tid = h.transaction_id
        assert h.cancel_request(tid) is True    # -> EOF queued, handler idle (unack)
        assert h.state == CfdpState.IDLE
        try: return h.cancel_request(tid) is not False
        except UnretrievedPdusToBeSent: return True

def d14():
    with TmpDir() as d:
        (d / "x").mkdir(); (d / "x" / "f").write_bytes(b"1")
        r = NativeFilestore().remove_directory(d / "x", False)
        return r != FilestoreResult.REMOVE_DIR_NOT_PERFORMED, r

for n, f in [("D1", d1), ("D2", d2), ("D3", d3), ("D4", d4), ("D11a", d11a), ("D11b", d11b),
             ("D12", d12), ("D13", d13), ("D14", d14)]:
    try: r = f()
    except Exception as e:
        r = "ERROR " + "".join(traceback.format_exception_only(type(e), e)).strip()
    print(n, "PRESENT" if (r is True or (isinstance(r, tuple) and r[0])) else ("absent" if r is False or (isinstance(r, tuple)) else r), r if isinstance(r, tuple) else "")

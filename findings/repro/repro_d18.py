"""D18 (C01-R4 / C02): metadata-only put request in ACKNOWLEDGED mode without closure: the sender
fabricates a success report and goes idle without waiting for the receiver's Finished PDU."""
import sys, os
sys.path.insert(0, os.path.dirname(__file__))
from harness import *
A = TransmissionMode.ACKNOWLEDGED
h, u, fh = mk_source(mode=A, closure=False, positive_ack_timer_interval_seconds=10.0)
h.put_request(PutRequest(DST_ID, None, None, None, None))
for _ in range(4):
    h.state_machine(); drain(h)
fin = [c for c in u.calls if c[0] == "finished"]
print("state", h.state, "finished indications", [(c[1].finished_params.condition_code.name, c[1].finished_params.delivery_code.name) for c in fin])
print("PRESENT" if fin and str(h.state).endswith("IDLE") else "absent")

"""D20 (C04-R3 / C03): acknowledged mode, the Metadata PDU is lost and re-requested by the deferred NAK procedure.
When the late Metadata arrives the step becomes RECEIVING_FILE_DATA while the deferred procedure is still active; the
NAK timer is consulted only in WAITING_FOR_METADATA / WAITING_FOR_MISSING_DATA, so (a) a silent peer hangs the
transaction forever (no NAK re-issue, no NAK-limit fault) and (b) even when all data arrives the transfer never completes."""
import sys, os, time, zlib, struct
sys.path.insert(0, os.path.dirname(__file__))
from harness import *

def upto_late_metadata(d):
    h, u, fh = mk_dest(mode=TransmissionMode.ACKNOWLEDGED, closure=True, nak_timer_expiration_limit=2, immediate_nak_mode=False,
                       nak_timer_interval_seconds=0.02, positive_ack_timer_interval_seconds=0.02)
    conf = pdu_conf(TransmissionMode.ACKNOWLEDGED)
    data = b"0123456789"
    crc = struct.pack("!I", zlib.crc32(data))
    h.state_machine(FileDataPdu(conf, FileDataParams(data, 0))); drain(h)        # Metadata lost: File Data first, then EOF
    h.state_machine(EofPdu(conf, crc, len(data))); drain(h)
    h.state_machine(); naks = [p.pdu.segment_requests for p in drain(h)]
    md = MetadataPdu(conf, MetadataParams(True, ChecksumType.CRC_32, len(data), "src.bin", str(d / "dst.bin")))
    h.state_machine(md); drain(h)
    print("deferred NAK:", naks, "| after late Metadata:", h.step.name, "deferred active:", h.deferred_lost_segment_procedure_active)
    return h, u, fh, conf, data

with TmpDir() as d:
    h, u, fh, conf, data = upto_late_metadata(d)
    emitted = []
    for _ in range(40):                                                           # (a) silent peer
        h.state_machine(); time.sleep(0.005)
        emitted += [type(p.pdu).__name__ for p in drain(h)]
    print("(a) silent peer, 200 ms:", h.state.name, h.step.name, "emitted", emitted, "faults", [(k, c.name) for k, c in fh.calls])
    a = h.step.name == "RECEIVING_FILE_DATA" and not fh.calls and not emitted
with TmpDir() as d:
    h, u, fh, conf, data = upto_late_metadata(d)
    h.state_machine(FileDataPdu(conf, FileDataParams(data, 0))); drain(h)        # (b) the re-sent data arrives
    for _ in range(5):
        h.state_machine(); drain(h)
    fin = [c[1].finished_params for c in u.calls if c[0] == "finished"]
    print("(b) all data re-sent:", h.state.name, h.step.name, "file:", (d / "dst.bin").read_bytes(), "finished:", [(f.condition_code.name, f.delivery_code.name) for f in fin])
    b = not fin
print("PRESENT" if a and b else "absent")

"""D7 family (C14-R3/R4, thorough tier: non-default handler codes). Not part of any registered check."""
import sys, os, time
sys.path.insert(0, os.path.dirname(__file__))
from harness import *
from spacepackets.cfdp import FaultHandlerCode
U = TransmissionMode.UNACKNOWLEDGED; A = TransmissionMode.ACKNOWLEDGED

def md(d, size):
    return MetadataParams(closure_requested=False, checksum_type=ChecksumType.CRC_32, file_size=size, source_file_name="s", dest_file_name=str(d / "o"))

def run(label, f):
    try:
        print(f"{label}: {f()}")
    except Exception as e:
        print(f"{label}: LEAKED {type(e).__name__}: {e}")

def abandon_checksum_unack():
    with TmpDir() as d:
        fh = FH(); fh.set_handler(ConditionCode.FILE_CHECKSUM_FAILURE, FaultHandlerCode.ABANDON_TRANSACTION)
        h, u, _ = mk_dest(fh=fh, mode=U); conf = pdu_conf(U)
        h.state_machine(MetadataPdu(conf, md(d, 10))); h.state_machine(FileDataPdu(conf, FileDataParams(b"x" * 10, 0)))
        h.state_machine(EofPdu(conf, b"\1\2\3\4", 10))
        return ("state", h.state, [c[0] for c in u.calls], fh.calls)

def abandon_during_check_limit():
    with TmpDir() as d:
        fh = FH()
        h, u, _ = mk_dest(fh=fh, mode=U, check_limit=3); conf = pdu_conf(U)
        h.state_machine(MetadataPdu(conf, md(d, 10))); h.state_machine(FileDataPdu(conf, FileDataParams(b"x" * 10, 0)))
        h.state_machine(EofPdu(conf, b"\1\2\3\4", 10))          # ignored -> check limit handling
        fh.set_handler(ConditionCode.FILE_CHECKSUM_FAILURE, FaultHandlerCode.ABANDON_TRANSACTION)
        time.sleep(0.01)
        h.state_machine()
        return ("state", h.state, fh.calls)

def nak_limit_ignore_twice():
    with TmpDir() as d:
        fh = FH(); fh.set_handler(ConditionCode.NAK_LIMIT_REACHED, FaultHandlerCode.IGNORE_ERROR)
        h, u, _ = mk_dest(fh=fh, mode=A, nak_timer_expiration_limit=1, positive_ack_timer_interval_seconds=10.0); conf = pdu_conf(A)
        h.state_machine(EofPdu(conf, b"\0\0\0\0", 10)); drain(h)      # EOF first: metadata missing
        h.state_machine(); drain(h)
        time.sleep(0.01)
        n0 = len(fh.calls)
        h.state_machine(MetadataPdu(conf, md(d, 10))); drain(h)
        return ("callbacks in one call", fh.calls[n0:])

run("abandon on checksum failure (unack)", abandon_checksum_unack)
run("abandon on checksum failure during check-limit handling", abandon_during_check_limit)
run("ignored NAK limit reported twice in one call", nak_limit_ignore_twice)

"""D24 (C12-R6): acknowledged mode, the sender cancels while the receiver runs the deferred lost segment procedure.
The EOF (cancel) PDU arrives in WAITING_FOR_MISSING_DATA (or any step after the first EOF) and is silently ignored - the
dispatch handles EOF PDUs only while receiving file data (same root cause as D9.x). The receiver keeps sending NAKs until the
NAK limit and then reports NAK_LIMIT_REACHED instead of finishing with the EOF's condition and the sender as fault location."""
import sys, os, time, zlib, struct
sys.path.insert(0, os.path.dirname(__file__))
from harness import *
from spacepackets.cfdp.tlv import EntityIdTlv
with TmpDir() as d:
    h, u, fh = mk_dest(mode=TransmissionMode.ACKNOWLEDGED, closure=True, nak_timer_expiration_limit=2, immediate_nak_mode=False,
                       nak_timer_interval_seconds=0.02, positive_ack_timer_interval_seconds=0.02)
    conf = pdu_conf(TransmissionMode.ACKNOWLEDGED)
    data = b"0123456789ABCDEFGHIJ"
    h.state_machine(MetadataPdu(conf, MetadataParams(True, ChecksumType.CRC_32, 20, "src.bin", str(d / "dst.bin")))); drain(h)
    h.state_machine(FileDataPdu(conf, FileDataParams(data[10:20], 10))); drain(h)            # [0,10) lost
    h.state_machine(EofPdu(conf, struct.pack("!I", zlib.crc32(data)), 20)); drain(h)           # regular EOF, acknowledged
    h.state_machine(); print("step:", h.step.name, [type(p.pdu).__name__ for p in drain(h)])  # deferred NAK
    cancel = EofPdu(conf, struct.pack("!I", zlib.crc32(data[10:20])), 20, condition_code=ConditionCode.CANCEL_REQUEST_RECEIVED,
                    fault_location=EntityIdTlv(SRC_ID.as_bytes))
    h.state_machine(cancel); out = [type(p.pdu).__name__ for p in drain(h)]
    print("after EOF (cancel):", h.step.name, out, "finished:", [c for c in u.calls if c[0] == "finished"])
    ignored = h.step.name == "WAITING_FOR_MISSING_DATA" and not out
    for _ in range(20):
        h.state_machine(); drain(h); time.sleep(0.005)
    fin = [c[1].finished_params for c in u.calls if c[0] == "finished"]
    print("later:", h.step.name, "faults", [(k, c.name) for k, c in fh.calls][:2], "finished:", [(f.condition_code.name) for f in fin][:1])
    print("PRESENT" if ignored and (not fin or fin[0].condition_code != ConditionCode.CANCEL_REQUEST_RECEIVED) else "absent")

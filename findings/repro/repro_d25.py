"""D25 (C10-R5): _reset_internal(clear_packet_queue=True) empties the send queue but leaves states._num_packets_ready.
Source handler: the public reset() with a PDU still queued leaves packets_ready == True / num_packets_ready == 1 while
get_next_packet() returns None (a `while handler.packets_ready:` send loop never ends). The destination handler has the same
function; there the True branch is not reached on the pinned tree."""
import sys, os
sys.path.insert(0, os.path.dirname(__file__))
from harness import *
with TmpDir() as d:
    src = d / "s.bin"; src.write_bytes(b"x" * 10)
    h, u, fh = mk_source(mode=TransmissionMode.UNACKNOWLEDGED, closure=False)
    h.put_request(PutRequest(DST_ID, src, d / "o.bin", TransmissionMode.UNACKNOWLEDGED, False))
    h.state_machine()          # Metadata PDU queued
    h.reset()
    nxt = h.get_next_packet()
    print("after reset(): packets_ready", h.packets_ready, "num_packets_ready", h.num_packets_ready, "get_next_packet()", nxt)
    print("PRESENT" if h.packets_ready and nxt is None else "absent")
